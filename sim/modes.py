"""Semiring modes: how an abstract (JSON) weight becomes a library weight, how
results are compared, and the user semiring ``Poly``.

Poly is the free commutative semiring N[w_1..w_k].  With one indeterminate per
rule the weight of a string is a polynomial whose monomials are the multisets
of rules used by its derivation trees and whose coefficients are their
multiplicities, so "every derivation exactly once" is an ``==`` check.
"""
import math
from fractions import Fraction

from .ref import Alg


class Poly:
    __slots__ = ("t",)

    def __init__(self, terms=()):
        # terms: dict / iterable of (monomial tuple sorted, coeff)
        d = {}
        for m, c in (terms.items() if isinstance(terms, dict) else terms):
            if c:
                d[m] = d.get(m, 0) + c
        self.t = d

    @classmethod
    def var(cls, k):
        return cls({(k,): 1})

    @classmethod
    def chart(cls, *args, **kwargs):
        from genlm.grammar.chart import Chart

        return Chart(cls, *args, **kwargs)

    def __add__(self, other):
        if not isinstance(other, Poly):
            return NotImplemented
        d = dict(self.t)
        for m, c in other.t.items():
            d[m] = d.get(m, 0) + c
        return Poly(d)

    def __mul__(self, other):
        if not isinstance(other, Poly):
            return NotImplemented
        d = {}
        for m1, c1 in self.t.items():
            for m2, c2 in other.t.items():
                m = tuple(sorted(m1 + m2))
                d[m] = d.get(m, 0) + c1 * c2
        return Poly(d)

    def __eq__(self, other):
        return isinstance(other, Poly) and self.t == other.t

    def __ne__(self, other):
        return not self.__eq__(other)

    def __hash__(self):
        return hash(tuple(sorted(self.t.items())))

    def star(self):
        if not self.t:
            return Poly.one
        raise ArithmeticError("Poly.star of a non-zero element is not a polynomial")

    def metric(self, other):
        return 0 if self == other else 1

    def __repr__(self):
        if not self.t:
            return "0"
        out = []
        for m, c in sorted(self.t.items()):
            s = "*".join(f"w{k}" for k in m) or "1"
            out.append(s if c == 1 else f"{c}*{s}")
        return " + ".join(out)

    def n_trees(self):
        return sum(self.t.values())

    def to_json(self):
        return [[c, list(m)] for m, c in sorted(self.t.items())]

    @classmethod
    def from_json(cls, j):
        return cls({tuple(m): c for c, m in j})


Poly.zero = Poly()
Poly.one = Poly({(): 1})

MODES = ("bool", "maxtimes", "maxplus", "poly", "float", "real", "log")
EXACT = {"bool", "poly"}


class Mode:
    """Adapter for one semiring mode."""

    def __init__(self, name):
        import genlm.grammar.semiring as sr

        self.name = name
        self.exact = name in EXACT
        if name == "bool":
            self.R = sr.Boolean
        elif name == "maxtimes":
            self.R = sr.MaxTimes
        elif name == "maxplus":
            self.R = sr.MaxPlus
        elif name == "poly":
            self.R = Poly
        elif name == "float":
            self.R = sr.Float
        elif name == "real":
            self.R = sr.Real
        elif name == "log":
            self.R = sr.Log
        else:
            raise ValueError(name)
        self.zero = self.R.zero
        self.one = self.R.one
        if name == "float":
            self.zero, self.one = 0.0, 1.0
        # float-like modes: relative convergence criterion (values of short
        # strings can be tiny); Log scores are already logarithms -> absolute
        self.alg = Alg(self.zero, self.one, exact=name in ("bool", "poly", "maxtimes", "maxplus"),
                       metric=self._dist, relative=name in ("float", "real"),
                       eps=1e-14 if name in ("float", "real") else 1e-13)

    # abstract (decoded JSON) weight -> library weight
    def weight(self, a):
        n = self.name
        if n == "bool":
            return self.R.one if a else self.R.zero
        if n == "maxtimes":
            return self.R(Fraction(a[0], a[1]) if isinstance(a, (list, tuple)) else Fraction(a))
        if n == "maxplus":
            return self.R(a)
        if n == "poly":
            return Poly.from_json(a) if isinstance(a, list) else Poly.var(a)
        if n == "float":
            return float(a)
        if n == "real":
            return self.R(float(a))
        if n == "log":
            return self.R(math.log(a)) if a > 0 else self.R.zero
        raise ValueError(n)

    def scalar(self, v):
        """Comparable plain value of a library weight."""
        n = self.name
        if n == "poly":
            return v
        if n == "float":
            return v
        if n == "bool":
            return bool(v.score) if hasattr(v, "score") else bool(v)
        return v.score

    def _dist(self, a, b):
        a, b = self.scalar(a), self.scalar(b)
        if a == b:
            return 0.0
        try:
            return abs(float(a) - float(b))
        except Exception:
            return float("inf")

    def well_typed(self, v):
        """Is v a value of this semiring's carrier (not, e.g., the int 0 that a
        start-less ``sum`` returns)?"""
        n = self.name
        if n == "float":
            return isinstance(v, (int, float)) and not isinstance(v, bool) or hasattr(v, "dtype")
        return isinstance(v, self.R)

    def close(self, got, want, rtol=1e-6, atol=1e-9):
        """Semantic equality of a library result with a reference value."""
        if not self.well_typed(got):
            return False
        n = self.name
        if n in ("bool", "poly"):
            return got == want
        a, b = self.scalar(got), self.scalar(want)
        if a == b:
            return True
        try:
            a, b = float(a), float(b)
        except Exception:
            return False
        if math.isnan(a) or math.isnan(b) or math.isinf(a) or math.isinf(b):
            return False
        if n == "log":
            # compare in probability space as well as log space
            return abs(a - b) <= 1e-6 or abs(math.exp(a) - math.exp(b)) <= atol
        if n == "maxplus":
            return abs(a - b) <= 1e-9
        return abs(a - b) <= atol + rtol * max(abs(a), abs(b))

    def is_zero(self, v):
        if self.name == "float":
            return v == 0
        return v == self.R.zero

    def show(self, v):
        if self.name == "poly":
            return repr(v)
        s = self.scalar(v) if self.well_typed(v) else v
        if isinstance(s, Fraction):
            return f"{s.numerator}/{s.denominator}"
        return repr(s)
