"""Semiring modes: how an abstract (JSON) weight becomes a library weight, how
results are compared, and the user semiring ``Poly``.

Poly is the free commutative semiring N[w_1..w_k].  With one indeterminate per
rule the weight of a string is a polynomial whose monomials are the multisets
of rules used by its derivation trees and whose coefficients are their
multiplicities, so "every derivation exactly once" is an ``==`` check.
"""
import math
from fractions import Fraction

from .ref import Alg


class Poly:
    __slots__ = ("t",)

    def __init__(self, terms=()):
        # terms: dict / iterable of (monomial tuple sorted, coeff)
        d = {}
        for m, c in (terms.items() if isinstance(terms, dict) else terms):
            if c:
                d[m] = d.get(m, 0) + c
        self.t = d

    @classmethod
    def var(cls, k):
        return cls({(k,): 1})

    @classmethod
    def chart(cls, *args, **kwargs):
        from genlm.grammar.chart import Chart

        return Chart(cls, *args, **kwargs)

    def __add__(self, other):
        if not isinstance(other, Poly):
            return NotImplemented
        d = dict(self.t)
        for m, c in other.t.items():
            d[m] = d.get(m, 0) + c
        return Poly(d)

    def __mul__(self, other):
        if not isinstance(other, Poly):
            return NotImplemented
        d = {}
        for m1, c1 in self.t.items():
            for m2, c2 in other.t.items():
                m = tuple(sorted(m1 + m2))
                d[m] = d.get(m, 0) + c1 * c2
        return Poly(d)

    def __eq__(self, other):
        return isinstance(other, Poly) and self.t == other.t

    def __ne__(self, other):
        return not self.__eq__(other)

    def __hash__(self):
        return hash(tuple(sorted(self.t.items())))

    def star(self):
        if not self.t:
            return Poly.one
        raise ArithmeticError("Poly.star of a non-zero element is not a polynomial")

    def metric(self, other):
        return 0 if self == other else 1

    def __repr__(self):
        if not self.t:
            return "0"
        out = []
        for m, c in sorted(self.t.items()):
            s = "*".join(f"w{k}" for k in m) or "1"
            out.append(s if c == 1 else f"{c}*{s}")
        return " + ".join(out)

    def n_trees(self):
        return sum(self.t.values())

    def to_json(self):
        return [[c, list(m)] for m, c in sorted(self.t.items())]

    @classmethod
    def from_json(cls, j):
        return cls({tuple(m): c for c, m in j})


Poly.zero = Poly()
Poly.one = Poly({(): 1})

MODES = ("bool", "maxtimes", "maxplus", "poly", "float", "real", "log", "expect")
EXACT = {"bool", "poly"}


# ---------------------------------------------------------------------------
# Shadow weights: the reference models compute in their OWN arithmetic, never
# with the operators of genlm/grammar/semiring.py, so that a defect in a shipped
# weight type shows up as a wrong parser / transformation / total result.


class SW:
    __slots__ = ("score",)

    def __init__(self, score):
        self.score = score

    def __eq__(self, other):
        return type(other) is type(self) and self.score == other.score

    def __ne__(self, other):
        return not self.__eq__(other)

    def __hash__(self):
        return hash((type(self).__name__, self.score))

    def __repr__(self):
        return f"{type(self).__name__}({self.score!r})"


class SBool(SW):
    def __add__(self, o):
        return SBool(self.score or o.score)

    def __mul__(self, o):
        return SBool(self.score and o.score)


class SMaxTimes(SW):
    def __add__(self, o):
        return self if self.score >= o.score else o

    def __mul__(self, o):
        return SMaxTimes(self.score * o.score)


class SMaxPlus(SW):
    def __add__(self, o):
        return self if self.score >= o.score else o

    def __mul__(self, o):
        return SMaxPlus(self.score + o.score)


class SReal(SW):
    def __add__(self, o):
        return SReal(self.score + o.score)

    def __mul__(self, o):
        return SReal(self.score * o.score)


class SLog(SW):
    def __add__(self, o):
        a, b = self.score, o.score
        if a == -math.inf:
            return o
        if b == -math.inf:
            return self
        m = a if a >= b else b
        return SLog(m + math.log(math.exp(a - m) + math.exp(b - m)))

    def __mul__(self, o):
        if self.score == -math.inf or o.score == -math.inf:
            return SLog(-math.inf)
        return SLog(self.score + o.score)


class SPair(SW):
    """First-order expectation semiring written out: (p, r)."""

    def __add__(self, o):
        return SPair((self.score[0] + o.score[0], self.score[1] + o.score[1]))

    def __mul__(self, o):
        p1, r1 = self.score
        p2, r2 = o.score
        return SPair((p1 * p2, p1 * r2 + p2 * r1))


class Mode:
    """Adapter for one semiring mode: library weights on one side, shadow
    weights (reference arithmetic) on the other, and their comparison."""

    def __init__(self, name):
        import genlm.grammar.semiring as sr

        self.name = name
        self.exact = name in EXACT
        self.R = {"bool": sr.Boolean, "maxtimes": sr.MaxTimes, "maxplus": sr.MaxPlus, "poly": Poly,
                  "float": sr.Float, "real": sr.Real, "log": sr.Log, "expect": sr.Expectation}[name]
        self.S = {"bool": SBool, "maxtimes": SMaxTimes, "maxplus": SMaxPlus, "poly": Poly, "float": None,
                  "real": SReal, "log": SLog, "expect": SPair}[name]
        # reference side (shadow) constants
        self.zero, self.one = {
            "bool": (SBool(False), SBool(True)),
            "maxtimes": (SMaxTimes(Fraction(0)), SMaxTimes(Fraction(1))),
            "maxplus": (SMaxPlus(-math.inf), SMaxPlus(0)),
            "poly": (Poly.zero, Poly.one),
            "float": (0.0, 1.0),
            "real": (SReal(0.0), SReal(1.0)),
            "log": (SLog(-math.inf), SLog(0.0)),
            "expect": (SPair((0.0, 0.0)), SPair((1.0, 0.0))),
        }[name]
        # float-like modes: relative convergence criterion (values of short
        # strings can be tiny); Log scores are already logarithms -> absolute
        self.alg = Alg(self.zero, self.one, exact=name in ("bool", "poly", "maxtimes", "maxplus"),
                       metric=self._dist, relative=name in ("float", "real", "expect"),
                       eps=1e-14 if name in ("float", "real", "expect") else 1e-13)

    # abstract (decoded JSON) weight -> library weight
    def weight(self, a):
        n = self.name
        if n == "bool":
            return self.R.one if a else self.R.zero
        if n == "maxtimes":
            return self.R(Fraction(a[0], a[1]) if isinstance(a, (list, tuple)) else Fraction(a))
        if n == "maxplus":
            return self.R(a)
        if n == "poly":
            return Poly.from_json(a) if isinstance(a, list) else Poly.var(a)
        if n == "float":
            return float(a)
        if n == "real":
            return self.R(float(a))
        if n == "log":
            return self.R(math.log(a)) if a > 0 else self.R.zero
        if n == "expect":
            return self.R(float(a[0]), float(a[1]))
        raise ValueError(n)

    # abstract (decoded JSON) weight -> shadow weight of the reference
    def sweight(self, a):
        n = self.name
        if n == "bool":
            return SBool(bool(a))
        if n == "maxtimes":
            return SMaxTimes(Fraction(a[0], a[1]) if isinstance(a, (list, tuple)) else Fraction(a))
        if n == "maxplus":
            return SMaxPlus(a)
        if n == "poly":
            return Poly.from_json(a) if isinstance(a, list) else Poly.var(a)
        if n == "float":
            return float(a)
        if n == "real":
            return SReal(float(a))
        if n == "log":
            return SLog(math.log(a)) if a > 0 else SLog(-math.inf)
        if n == "expect":
            return SPair((float(a[0]), float(a[1])))
        raise ValueError(n)

    def to_shadow(self, w):
        """Library weight (e.g. of a transformed grammar) -> shadow weight."""
        n = self.name
        if n in ("poly", "float"):
            return float(w) if n == "float" else w
        sc = w.score
        if n == "bool":
            return SBool(bool(sc))
        if n == "maxtimes":
            return SMaxTimes(sc if isinstance(sc, Fraction) else Fraction(sc))
        if n == "maxplus":
            return SMaxPlus(sc)
        if n == "real":
            return SReal(float(sc))
        if n == "log":
            return SLog(float(sc))
        if n == "expect":
            return SPair((float(sc[0]), float(sc[1])))
        raise ValueError(n)

    def scalar(self, v):
        """Comparable plain value of a library or shadow weight."""
        n = self.name
        if n in ("poly", "float"):
            return v
        sc = v.score if hasattr(v, "score") else v
        if n == "bool":
            return bool(sc)
        if n == "expect":
            return (float(sc[0]), float(sc[1]))
        return sc

    def _dist(self, a, b):
        a, b = self.scalar(a), self.scalar(b)
        if a == b:
            return 0.0
        try:
            if isinstance(a, tuple):
                return max(abs(float(x) - float(y)) for x, y in zip(a, b))
            return abs(float(a) - float(b))
        except Exception:
            return float("inf")

    def well_typed(self, v):
        """Is v a value of this semiring's carrier (not, e.g., the int 0 that a
        start-less ``sum`` returns)?"""
        n = self.name
        if n == "float":
            return isinstance(v, (int, float)) and not isinstance(v, bool) or hasattr(v, "dtype")
        return isinstance(v, self.R)

    def close(self, got, want, rtol=1e-6, atol=1e-9, typed=True):
        """Semantic equality of a library result with a reference (shadow) value
        (typed=False: both sides are reference values)."""
        if typed and not self.well_typed(got):
            return False
        n = self.name
        if n == "poly":
            return got == want
        a, b = self.scalar(got), self.scalar(want)
        if n == "bool":
            return a == b
        if n == "expect":
            return all(self._num_close(x, y, rtol, atol) for x, y in zip(a, b))
        return self._num_close(a, b, rtol, atol)

    def _num_close(self, a, b, rtol, atol):
        if a == b:
            return True
        try:
            a, b = float(a), float(b)
        except Exception:
            return False
        if math.isnan(a) or math.isnan(b) or math.isinf(a) or math.isinf(b):
            return False
        if self.name == "log":
            return abs(a - b) <= 1e-6  # log space: relative accuracy of the weight
        if self.name == "maxplus":
            return abs(a - b) <= 1e-9
        return abs(a - b) <= atol + rtol * max(abs(a), abs(b))

    def is_zero(self, v):
        """Zero test for library or shadow values."""
        if self.name == "float":
            return v == 0
        if self.name == "poly":
            return v == Poly.zero
        return self.scalar(v) == self.scalar(self.zero)

    def show(self, v):
        if self.name == "poly":
            return repr(v)
        try:
            s = self.scalar(v)
        except Exception:
            s = v
        if isinstance(s, Fraction):
            return f"{s.numerator}/{s.denominator}"
        return repr(s)
