"""Debug helper: print the scenario a run would generate."""
import json, sys
from .core import ensure_repo_on_path, mix, rng_for
ensure_repo_on_path()
from .props import get
def scenario(prop, seed, run, tier="quick"):
    pm = get(prop)
    rs = mix(seed, prop, run)
    sc = pm.generate(rng_for(rs, "workload"), tier)
    sc["run_seed"] = rs; sc["run"] = run; sc["seed"] = seed
    return sc
if __name__ == "__main__":
    sc = scenario(sys.argv[1], int(sys.argv[2]), int(sys.argv[3]))
    print(json.dumps(sc, ensure_ascii=False)[:3000])
