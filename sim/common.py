"""Shared pieces of the property simulations: schedules, violation records,
scenario surgery used by the minimiser."""
import copy
import time
import traceback

from . import chaos
from .core import short


def draw_schedule(rng, ab, gen, identity=False, p_sets=0.8, p_heap=0.8):
    """One schedule = (presentation, order_seed, seam switches, fresh-name
    counter start).  order_seed 0 = canonical order + FIFO ties."""
    return {
        "pres": gen.presentation(rng, ab, identity=identity),
        "order_seed": 0 if identity else rng.getrandbits(32) | 1,
        "sets": (not identity) and rng.random() < p_sets,
        "heap": (not identity) and rng.random() < p_heap,
        "gen_nt": 0 if identity else rng.choice([0, 0, 1, 7, 1000, 10 ** 6, rng.getrandbits(20)]),
    }


SEAM_STATS = {"schedules": 0, "schedules_set_seam_on": 0, "schedules_heap_seam_on": 0,
              "schedules_canonical_order": 0}


def apply_schedule(s):
    """Install exactly the seams the schedule asks for and hand the scheduler
    its seed.  (Each run lives in its own forked process; install/uninstall
    only matters between the schedules of one run.)"""
    import genlm.grammar.cfg as cfgmod

    SEAM_STATS["schedules"] += 1
    SEAM_STATS["schedules_set_seam_on"] += bool(s.get("sets"))
    SEAM_STATS["schedules_heap_seam_on"] += bool(s.get("heap"))
    SEAM_STATS["schedules_canonical_order"] += (s.get("order_seed", 0) == 0)
    if not s.get("sets") or not s.get("heap"):
        chaos.uninstall()
    chaos.install(sets=bool(s.get("sets")), heap=bool(s.get("heap")))
    chaos.begin(s.get("order_seed", 0))
    cfgmod._gen_nt.i = int(s.get("gen_nt", 0))


def set_counter(k):
    import genlm.grammar.cfg as cfgmod

    cfgmod._gen_nt.i = int(k)


class Outcome:
    def __init__(self):
        self.violations = []
        self.probes = {}
        self.evals = 0
        self.steps = 0
        self.notes = []
        self.sample = None
        self.nontrivial = False
        self.sig = None

    def probe(self, k, n=1):
        self.probes[k] = self.probes.get(k, 0) + n

    def violation(self, cls, **kw):
        v = {"class": cls}
        for k, val in kw.items():
            v[k] = val if isinstance(val, (int, float, bool, str, type(None), list, dict)) else short(val)
        if len(self.violations) < 40:
            self.violations.append(v)
        return v

    def to_json(self):
        return {
            "violations": self.violations, "probes": self.probes, "evals": self.evals,
            "steps": self.steps, "notes": self.notes[:10], "sample": self.sample,
            "nontrivial": self.nontrivial, "sig": self.sig,
        }


class _LibClock:
    """CPU time spent inside library calls (vs. in the harness / reference);
    reported when a run exceeds its CPU budget so that slowness of the
    reference (e.g. polynomial blow-up) is never mistaken for a hang."""

    def __init__(self):
        self.lib = 0.0
        self.since = None
        self.component = None

    def enter(self, component):
        self.since = time.process_time()
        self.component = component

    def exit(self):
        if self.since is not None:
            self.lib += time.process_time() - self.since
            self.since = None

    def snapshot(self):
        extra = (time.process_time() - self.since) if self.since is not None else 0.0
        return {"lib_cpu": round(self.lib + extra, 2), "total_cpu": round(time.process_time(), 2),
                "in_lib": self.since is not None, "component": self.component}


LIBCLOCK = _LibClock()


class libcall:
    def __init__(self, component):
        self.component = component

    def __enter__(self):
        LIBCLOCK.enter(self.component)

    def __exit__(self, *a):
        LIBCLOCK.exit()
        return False


def guarded(out, component, fn, sig=None, expect_exc=()):
    """Run one library call; an exception the reference does not also raise is
    recorded as a violation of class exc:<component>:<Type> (never a harness
    error: the call is the system under test)."""
    try:
        with libcall(component):
            return True, fn()
    except expect_exc as e:  # noqa
        return False, e
    except chaos_passthrough as e:  # noqa
        raise
    except RecursionError as e:
        out.violation(f"exc:{component}:RecursionError", sig=sig or {}, detail=short(str(e), 120))
        return False, e
    except Exception as e:
        tb = traceback.extract_tb(e.__traceback__)
        where = ""
        for fr in reversed(tb):
            if "/genlm/" in fr.filename:
                where = f"{fr.filename.split('/genlm/')[-1]}:{fr.lineno}:{fr.name}"
                break
        out.violation(f"exc:{component}:{type(e).__name__}", sig=sig or {},
                      detail=short(str(e), 160), where=where)
        return False, e


class SimInterrupt(BaseException):
    """Injected abort of a query (KeyboardInterrupt / timeout stand-in)."""


chaos_passthrough = (SimInterrupt,)


# ---------------------------------------------------------------------------
# scenario surgery for the minimiser


def drop_rule(sc, k):
    """Remove rule k of the abstract grammar and renumber every presentation."""
    sc = copy.deepcopy(sc)
    del sc["grammar"]["rules"][k]
    for s in all_schedules(sc):
        p = s["pres"]
        p["perm"] = [i - (i > k) for i in p["perm"] if i != k]
        p["split"] = [[i - (i > k), f] for i, f in p["split"] if i != k]
    return sc


def all_schedules(sc):
    out = list(sc.get("schedules", []))
    if "schedule" in sc:
        out.append(sc["schedule"])
    for op in sc.get("ops", []):
        if isinstance(op, dict) and "schedule" in op:
            out.append(op["schedule"])
    return out


def shrink_candidates(sc, list_keys=("schedules", "strings", "contexts", "ops", "transforms")):
    """Generic candidate stream: smaller lists first (halves, then single
    deletions), then fewer rules, then simpler schedules."""
    for key in list_keys:
        xs = sc.get(key)
        if not isinstance(xs, list) or len(xs) <= 1:
            continue
        n = len(xs)
        chunk = n // 2
        while chunk >= 1:
            i = 0
            while i < n:
                cand = xs[:i] + xs[i + chunk:]
                if cand and len(cand) < n:
                    c = copy.deepcopy(sc)
                    c[key] = copy.deepcopy(cand)
                    yield c
                i += chunk
            chunk //= 2
    g = sc.get("grammar")
    if g:
        for k in range(len(g["rules"]) - 1, -1, -1):
            if len(g["rules"]) > 1:
                yield drop_rule(sc, k)
        # shorten bodies
        for k, (w, h, b) in enumerate(g["rules"]):
            for m in range(len(b)):
                if g["mode"] == "poly":
                    break
                c = copy.deepcopy(sc)
                del c["grammar"]["rules"][k][2][m]
                yield c
    # simpler schedules
    scheds = all_schedules(sc)
    for idx in range(len(scheds)):
        for field, val in (("sets", False), ("heap", False), ("gen_nt", 0), ("order_seed", 0)):
            if scheds[idx].get(field) != val:
                c = copy.deepcopy(sc)
                all_schedules(c)[idx][field] = val
                yield c
        p = scheds[idx]["pres"]
        if p["split"] or p["merge"]:
            c = copy.deepcopy(sc)
            q = all_schedules(c)[idx]["pres"]
            q["split"], q["merge"] = [], False
            yield c
        if any(k != v for k, v in p["nmap"].items()) or any(k != v for k, v in p["tmap"].items()):
            c = copy.deepcopy(sc)
            q = all_schedules(c)[idx]["pres"]
            q["nmap"] = {k: k for k in q["nmap"]}
            q["tmap"] = {k: k for k in q["tmap"]}
            yield c
        if p["perm"] != sorted(p["perm"]):
            c = copy.deepcopy(sc)
            q = all_schedules(c)[idx]["pres"]
            q["perm"] = sorted(q["perm"])
            yield c
    if sc.get("hashseed", 0) != 0:
        c = copy.deepcopy(sc)
        c["hashseed"] = 0
        yield c
