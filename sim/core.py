"""Seed discipline, canonical keys, JSON helpers shared by the whole simulator.

One integer decides everything: every sub-stream is derived from VERIF_SEED by
`mix(seed, tag, ...)`.  Nothing in this module reads a clock or draws from a
PRNG as a side effect.
"""
import hashlib
import json
import os
import random
import sys
from fractions import Fraction

MASK = (1 << 64) - 1
REPO = os.environ.get("VERIF_REPO", "/repo")
VERIF = os.path.dirname(os.path.dirname(os.path.abspath(__file__)))


def _as_int(x):
    if isinstance(x, bool):
        return int(x)
    if isinstance(x, int):
        return x & MASK
    if isinstance(x, str):
        return int.from_bytes(hashlib.blake2b(x.encode(), digest_size=8).digest(), "big")
    raise TypeError(type(x))


def _splitmix(z):
    z = (z + 0x9E3779B97F4A7C15) & MASK
    z = ((z ^ (z >> 30)) * 0xBF58476D1CE4E5B9) & MASK
    z = ((z ^ (z >> 27)) * 0x94D049BB133111EB) & MASK
    return z ^ (z >> 31)


def mix(*parts):
    """Deterministic 64-bit mix of ints / strings (SplitMix64 chaining)."""
    h = 0x243F6A8885A308D3
    for p in parts:
        h = _splitmix(h ^ _as_int(p))
    return h


def rng_for(*parts):
    return random.Random(mix(*parts))


# ---------------------------------------------------------------------------
# canonical, hash-seed independent ordering key


def ckey(x):
    if x is None:
        return (0,)
    t = type(x)
    if t is bool:
        return (1, x)
    if t is int:
        return (2, x)
    if t is float:
        return (3, x) if x == x else (3.5,)
    if t is str:
        return (4, x)
    if t is bytes:
        return (5, x)
    if isinstance(x, tuple):
        return (6, t.__name__, tuple(ckey(y) for y in x))
    if isinstance(x, set):
        return (7, tuple(sorted(ckey(y) for y in set.__iter__(x))))
    if isinstance(x, frozenset):
        return (7, tuple(sorted(ckey(y) for y in frozenset.__iter__(x))))
    if isinstance(x, dict):
        return (8, tuple(sorted((ckey(k), ckey(v)) for k, v in x.items())))
    if isinstance(x, Fraction):
        return (3, float(x))
    return (9, t.__name__, repr(x))


# ---------------------------------------------------------------------------
# JSON encoding of symbols and weights (replay files are self-contained JSON)


def enc(x):
    """Encode symbols / weights / nested tuples to JSON-able values."""
    if x is None or isinstance(x, (bool, str)):
        return x
    if isinstance(x, int):
        return {"i": x}
    if isinstance(x, float):
        return {"f": repr(x)}
    if isinstance(x, Fraction):
        return {"q": [x.numerator, x.denominator]}
    if isinstance(x, tuple):
        return {"t": [enc(y) for y in x]}
    if isinstance(x, list):
        return [enc(y) for y in x]
    if isinstance(x, dict):
        return {"d": [[enc(k), enc(v)] for k, v in x.items()]}
    return {"r": repr(x)}


def dec(x):
    if x is None or isinstance(x, (bool, str)):
        return x
    if isinstance(x, list):
        return [dec(y) for y in x]
    if isinstance(x, dict):
        if "i" in x:
            return int(x["i"])
        if "f" in x:
            return float(x["f"])
        if "q" in x:
            return Fraction(x["q"][0], x["q"][1])
        if "t" in x:
            return tuple(dec(y) for y in x["t"])
        if "d" in x:
            return {dec(k): dec(v) for k, v in x["d"]}
        if "r" in x:
            return x["r"]
    raise ValueError(x)


def jdump(obj):
    return json.dumps(obj, sort_keys=True, ensure_ascii=False)


def digest(obj):
    return hashlib.blake2b(jdump(obj).encode(), digest_size=8).hexdigest()


def short(x, n=300):
    s = x if isinstance(x, str) else repr(x)
    return s if len(s) <= n else s[: n - 3] + "..."


def ensure_repo_on_path():
    """Checks always exercise /repo's current working tree."""
    if sys.path[0] != REPO:
        sys.path.insert(0, REPO)
    import warnings

    warnings.filterwarnings("ignore")
    import genlm.grammar as g

    f = os.path.realpath(g.__file__)
    assert f.startswith(os.path.realpath(REPO) + os.sep), (
        f"genlm.grammar imported from {f}, expected under {REPO}"
    )
    return g


def pretty(obj, depth=3, _ind=0):
    """JSON text: indented down to `depth`, compact below (readable replay and
    evidence files without one line per token)."""
    pad = " " * (_ind + 1)
    if depth <= 0 or not isinstance(obj, (dict, list)) or not obj:
        return json.dumps(obj, ensure_ascii=False, default=repr)
    if isinstance(obj, dict):
        items = [f"{pad}{json.dumps(str(k), ensure_ascii=False)}: {pretty(v, depth - 1, _ind + 1)}" for k, v in obj.items()]
        return "{\n" + ",\n".join(items) + "\n" + " " * _ind + "}"
    if all(not isinstance(v, (dict, list)) for v in obj):
        return json.dumps(obj, ensure_ascii=False, default=repr)
    items = [f"{pad}{pretty(v, depth - 1, _ind + 1)}" for v in obj]
    return "[\n" + ",\n".join(items) + "\n" + " " * _ind + "]"
