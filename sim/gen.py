"""Workload generation (swarm style): abstract grammars, weights per semiring
mode, concrete presentations of one abstract grammar, strings and contexts.

An abstract grammar is plain JSON:
  {"mode": m, "S": "N0", "V": ["a","b"], "rules": [[w, head, [body..]], ..]}
Nonterminals are "N<i>", terminals "a","b","c".  A *presentation* turns it into
a concrete library CFG: rule permutation, duplicate split/merge, injective
renaming of nonterminals and terminals, insertion order of V.
"""
import itertools
import math
from fractions import Fraction

from . import ref
from .modes import Mode, Poly

TERMS = ["a", "b", "c"]
EOS = "▪"

FEATURES = [
    "nullary", "nullable_cycle", "unary_chain", "unary_cycle", "left_rec",
    "right_rec", "centre_rec", "start_on_rhs", "duplicates", "repeated_symbol",
    "unreachable", "unproductive", "long_body", "left_corner_cycle", "big_unary_cycle",
]


def _raw(ab, mode=None):
    """Abstract grammar -> (rules with library weights, V set, S)."""
    mode = mode or Mode(ab["mode"])
    rules = [(mode.sweight(w), h, tuple(b)) for w, h, b in ab["rules"]]
    return rules, set(ab["V"]), ab["S"]


def shape(rng, tier="quick", allow_cyclic=True, max_rules=None):
    """Draw the unweighted shape of a grammar; returns (S, V, rules[(head, body)], features)."""
    nN = rng.choice([1, 2, 2, 3, 3, 3, 4, 4, 5])
    nV = rng.choice([1, 2, 2, 2, 3, 3])
    nR = rng.randint(1, max_rules or (10 if tier == "quick" else 12))
    N = [f"N{i}" for i in range(nN)]
    V = TERMS[:nV]
    feats = {f for f in FEATURES if rng.random() < 0.3}
    if not allow_cyclic:
        feats -= {"nullable_cycle", "unary_cycle"}
    p_term = rng.uniform(0.3, 0.75)
    maxlen = 4 if ("long_body" in feats and tier != "quick") else 3
    lens = [0, 1, 1, 2, 2, 2, 3] + ([maxlen] if maxlen > 3 else [])
    if "nullary" not in feats:
        lens = [x for x in lens if x] + [0] * (rng.random() < 0.15)
    rules = []

    def sym():
        return rng.choice(V) if rng.random() < p_term else rng.choice(N)

    for _ in range(nR):
        h = rng.choice(N)
        k = rng.choice(lens)
        rules.append((h, tuple(sym() for _ in range(k))))
    X = rng.choice(N)
    Y = rng.choice(N)
    a = rng.choice(V)
    b = rng.choice(V)
    if "nullable_cycle" in feats:
        rules += [(X, (X, X)), (X, ())]
    if "unary_chain" in feats and nN >= 2:
        rules += [(N[0], (N[1],))] + ([(N[1], (N[2],))] if nN >= 3 else [])
    if "unary_cycle" in feats:
        rules += [(X, (Y,)), (Y, (X,))] if X != Y else [(X, (X,))]
        rules += [(X, (a,))]
    if "left_corner_cycle" in feats and nN >= 2:
        # left-corner cycle through two or three nonterminals, with ways out
        cyc = rng.sample(N, min(nN, rng.choice([2, 2, 3])))
        for i, P in enumerate(cyc):
            Q = cyc[(i + 1) % len(cyc)]
            rules += [(P, (Q,) + tuple(sym() for _ in range(rng.choice([0, 1, 1, 2]))))]
        rules += [(rng.choice(cyc), (a,)), (rng.choice(cyc), (b,) if rng.random() < 0.5 else ())]
    if "big_unary_cycle" in feats and nN >= 3 and allow_cyclic:
        # unary cycle through three or more nonterminals, entered at two nodes
        cyc = rng.sample(N, rng.choice([3, 3, min(4, nN)]))
        for i, P in enumerate(cyc):
            rules += [(P, (cyc[(i + 1) % len(cyc)],))]
        out = [Xo for Xo in N if Xo not in cyc] or [cyc[0]]
        W = rng.choice(out)
        e1, e2 = rng.sample(cyc, 2)
        rules += [(W, (e1,)), (W, (e2,)), (rng.choice(cyc), (a,)), (rng.choice(cyc), (b,))]
    if "left_rec" in feats:
        rules += [(X, (X, a))]
    if "right_rec" in feats:
        rules += [(Y, (b, Y))]
    if "centre_rec" in feats:
        rules += [(X, (a, X, b)), (X, ())] if rng.random() < 0.5 else [(X, (a, X, b)), (X, (a,))]
    if "start_on_rhs" in feats:
        rules += [(rng.choice(N), (N[0], a) if rng.random() < 0.5 else (a, N[0]))]
    if "repeated_symbol" in feats:
        rules += [(X, rng.choice([(Y, Y), (Y, Y), (Y, a, Y), (Y, Y, Y), (Y, X, Y)]))]
    if "duplicates" in feats and rules:
        rules += [rng.choice(rules)]
    if "unproductive" in feats:
        U = f"N{nN}"
        N.append(U)
        rules += [(U, (U, a))]
        if rng.random() < 0.6:
            rules += [(rng.choice(N[:-1]), (a, U) if rng.random() < 0.5 else (U,))]
    if "unreachable" in feats:
        U = f"N{len(N)}"
        N.append(U)
        rules += [(U, (a,) if rng.random() < 0.5 else (U, a)), (U, ())][: rng.choice([1, 2])]
    # the start symbol should usually have a rule
    if not any(h == "N0" for h, _ in rules) and rng.random() < 0.9:
        rules.append(("N0", tuple(sym() for _ in range(rng.choice([1, 2])))))
    rng.shuffle(rules)
    # keep runs cheap: the feature rules come on top of the random ones
    cap = 14 if tier == "quick" else 18
    if len(rules) > cap:
        rules = rules[:cap]
    return "N0", V, rules, sorted(feats)


def _float_weights(rng, rules, V):
    """Random positive weights, scaled until the Kleene iteration of the total
    weights provably converges fast (computed, not assumed)."""
    by_head = {}
    for h, _ in rules:
        by_head[h] = by_head.get(h, 0) + 1
    mass = {h: rng.uniform(0.3, 0.95) for h in by_head}
    ws = []
    for h, b in rules:
        ws.append(mass[h] * rng.uniform(0.2, 1.0) / by_head[h])
    alg = ref.Alg(0.0, 1.0, exact=False, eps=1e-15, cap=250)
    for _ in range(12):
        try:
            Z = ref.ref_total([(w, h, b) for w, (h, b) in zip(ws, rules)], set(V), alg)
            if all(z < 50 for z in Z.values()):
                break
        except ref.RefDiverged:
            pass
        ws = [w * 0.6 for w in ws]
    else:
        ws = [w * 1e-3 for w in ws]
    # round to short decimals so replay files stay readable (after scaling:
    # rounding down keeps convergence)
    return [max(math.floor(w * 1000) / 1000, 0.001) for w in ws]


def weights(rng, mode_name, rules, V):
    if mode_name == "bool":
        return [True for _ in rules]
    if mode_name == "maxtimes":
        pool = [[1, 1], [1, 2], [1, 3], [2, 3], [1, 4], [3, 4]]
        return [rng.choice(pool) for _ in rules]
    if mode_name == "maxplus":
        return [rng.choice([0, -1, -1, -2, -3]) for _ in rules]
    if mode_name == "poly":
        return [[[1, [k]]] for k in range(len(rules))]
    ws = _float_weights(rng, rules, V)
    if mode_name == "log" and rng.random() < 0.4:
        # log-probabilities exist to represent very small probabilities: scale
        # everything down (convergence only improves); results are compared in
        # log space, i.e. to relative accuracy
        k = rng.choice([3, 5, 8])
        ws = [float(f"{w * 10.0 ** -k:.3e}") for w in ws]
    if mode_name == "expect":
        # (p, r): r >= 0 arbitrary; a few rules carry (0, r) - no mass, but a
        # non-zero first-order part (a legitimate element of the semiring)
        out = []
        for w, (h, b) in zip(ws, rules):
            r = round(w * rng.choice([0, 1, len(b), 0.5, 2]), 6)
            if rng.random() < 0.12:
                out.append([0.0, rng.choice([0.25, 1.0])])
            else:
                out.append([w, r])
        return out
    return ws


def grammar(rng, mode_name, tier="quick", max_rules=None, nonrecursive=False):
    """Draw an abstract grammar for a mode.  Poly: no cyclic symbols (every
    string has finitely many derivations and the library's fixed points stop).
    nonrecursive: the dependency graph is acyclic (finitely many trees)."""
    need_acyclic = mode_name == "poly"
    for _ in range(200):
        S, V, rules, feats = shape(rng, tier, allow_cyclic=not need_acyclic, max_rules=max_rules)
        if nonrecursive:
            idx = lambda X: int(X[1:])  # noqa
            rules = [(h, b) for h, b in rules if all(y in V or idx(y) > idx(h) for y in b)]
            if not rules:
                continue
        if need_acyclic:
            rr = [(True, h, b) for h, b in rules]
            cyc = ref.cyclic_symbols(rr, set(V), productive_only=False)
            if cyc:
                rules = [(h, b) for h, b in rules
                         if not (all(y not in V for y in b) and (h in cyc or any(y in cyc for y in b)))]
                rr = [(True, h, b) for h, b in rules]
                if ref.cyclic_symbols(rr, set(V), productive_only=False) or not rules:
                    continue
        ws = weights(rng, mode_name, rules, V)
        return {
            "mode": mode_name, "S": S, "V": list(V),
            "rules": [[w, h, list(b)] for w, (h, b) in zip(ws, rules)],
            "features": feats,
        }
    raise RuntimeError("could not draw a grammar")


# ---------------------------------------------------------------------------
# named families (closed forms / long contexts); float mode


def named(name, p=None):
    if name == "anbn":  # a^n b^n, n>=0
        q = p or 0.6
        return {"mode": "float", "S": "N0", "V": ["a", "b"],
                "rules": [[q, "N0", ["a", "N0", "b"]], [round(1 - q, 6), "N0", []]], "features": ["named:anbn"]}
    if name == "pal":  # even palindromes
        q = p or 0.3
        return {"mode": "float", "S": "N0", "V": ["a", "b"],
                "rules": [[q, "N0", ["a", "N0", "a"]], [q, "N0", ["b", "N0", "b"]],
                          [round(1 - 2 * q, 6), "N0", []]], "features": ["named:pal"]}
    if name == "dyck":
        q = p or 0.3
        return {"mode": "float", "S": "N0", "V": ["a", "b"],
                "rules": [[q, "N0", ["a", "N0", "b", "N0"]], [round(1 - q, 6), "N0", []]], "features": ["named:dyck"]}
    if name == "catalan":
        q = p or 0.3
        return {"mode": "float", "S": "N0", "V": ["a"],
                "rules": [[q, "N0", ["N0", "N0"]], [round(1 - q, 6), "N0", ["a"]]], "features": ["named:catalan"]}
    if name == "rlin":  # a^n b
        q = p or 0.7
        return {"mode": "float", "S": "N0", "V": ["a", "b"],
                "rules": [[q, "N0", ["a", "N0"]], [round(1 - q, 6), "N0", ["b"]]], "features": ["named:rlin"]}
    if name == "llin":  # left-recursive: b a^n
        q = p or 0.7
        return {"mode": "float", "S": "N0", "V": ["a", "b"],
                "rules": [[q, "N0", ["N0", "a"]], [round(1 - q, 6), "N0", ["b"]]], "features": ["named:llin"]}
    if name == "unary":  # unary chain + cycle wrapped around a^n b
        return {"mode": "float", "S": "N0", "V": ["a", "b"],
                "rules": [[0.5, "N0", ["N1"]], [0.2, "N1", ["N0"]], [0.4, "N1", ["a", "N0"]],
                          [0.3, "N1", ["b"]], [0.1, "N0", ["b"]]], "features": ["named:unary"]}
    raise ValueError(name)


NAMED = ["anbn", "pal", "dyck", "catalan", "rlin", "llin", "unary"]


def named_long_string(name, rng, n):
    """A long in-language string for a named family."""
    if name == "anbn":
        k = n // 2
        return ["a"] * k + ["b"] * k
    if name == "pal":
        h = [rng.choice(["a", "b"]) for _ in range(n // 2)]
        return h + h[::-1]
    if name == "dyck":
        out, depth = [], 0
        while len(out) < n:
            if depth == 0 or (rng.random() < 0.5 and len(out) + depth + 1 < n):
                out.append("a")
                depth += 1
            else:
                out.append("b")
                depth -= 1
        return out + ["b"] * depth
    if name == "catalan":
        return ["a"] * max(1, min(n, 60))
    if name in ("rlin",):
        return ["a"] * (n - 1) + ["b"]
    if name in ("llin",):
        return ["b"] + ["a"] * (n - 1)
    if name == "unary":
        return ["a"] * (n - 1) + ["b"]
    raise ValueError(name)


# ---------------------------------------------------------------------------
# presentations


RENAMES = ["id", "int", "smallint", "tuple", "long", "mixed", "tokenlike"]
TOKENLIKE = ["c", "d", "e", "f", "g", "x", "y", "z", "tok_c", "tok_b"]
TERM_RENAMES = ["id", "id", "int", "multi"]


def abstract_N(ab):
    seen, out = set(ab["V"]), []
    for _, h, b in [("", ab["S"], [])] + [tuple(r) for r in ab["rules"]]:
        for y in [h] + list(b):
            if y not in seen:
                seen.add(y)
                out.append(y)
    return out


def presentation(rng, ab, identity=False):
    """Draw a concrete presentation (JSON) of an abstract grammar."""
    from .core import enc

    n = len(ab["rules"])
    N = abstract_N(ab)
    if identity:
        return {"perm": list(range(n)), "split": [], "merge": False,
                "nmap": {X: X for X in N}, "tmap": {a: a for a in ab["V"]},
                "vorder": list(ab["V"])}
    perm = list(range(n))
    rng.shuffle(perm)
    scheme = rng.choice(RENAMES)
    tscheme = rng.choice(TERM_RENAMES)
    sigma = list(range(len(N)))
    rng.shuffle(sigma)
    nmap = {}
    # smallint: nonterminals are the small integers right after the (integer)
    # terminals, i.e. exactly the range renumber() hands out
    base = len(ab["V"]) if tscheme == "int" else rng.choice([0, 1])
    for X, k in zip(N, sigma):
        if scheme == "tokenlike":
            # nonterminals named like tokens of OTHER vocabularies (never of this one)
            pool = [t for t in TOKENLIKE if t not in ab["V"] and ("tok_" + t) not in ab["V"]]
            nmap[X] = pool[k] if k < len(pool) else f"nt_{k}"
        elif scheme == "smallint":
            nmap[X] = enc(base + k)
        elif scheme == "id":
            nmap[X] = X
        elif scheme == "int":
            nmap[X] = enc(10 + k)
        elif scheme == "tuple":
            nmap[X] = enc(("n", k))
        elif scheme == "long":
            nmap[X] = "Q" * (k + 1)
        else:
            nmap[X] = [X, enc(20 + k), enc((k, "x")), f"Z{k}"][k % 4]
    tmap = {}
    for i, a in enumerate(ab["V"]):
        tmap[a] = a if tscheme == "id" else (enc(i) if tscheme == "int" else f"tok_{a}")
    if scheme == "tokenlike":
        used = {v for v in tmap.values() if isinstance(v, str)}
        for X in list(nmap):
            if nmap[X] in used:
                nmap[X] = "nt_" + str(nmap[X])
    split = []
    if rng.random() < 0.4 and n:
        for k in rng.sample(range(n), min(n, rng.choice([1, 1, 2]))):
            split.append([k, rng.choice([0.25, 0.5, 0.75])])
    vorder = list(ab["V"])
    rng.shuffle(vorder)
    return {"perm": perm, "split": split, "merge": rng.random() < 0.25,
            "nmap": nmap, "tmap": tmap, "vorder": vorder}


def _split_weight(mode_name, w, frac):
    """Two JSON weights that sum (in the semiring) to w."""
    if mode_name == "bool":
        return w, w
    if mode_name == "maxtimes":
        f = Fraction(w[0], w[1]) * Fraction(frac).limit_denominator(4)
        return w, [f.numerator, f.denominator]
    if mode_name == "maxplus":
        return w, w - 1
    if mode_name == "poly":
        # a polynomial a+b splits into a and b; a single monomial cannot be split
        if len(w) >= 2:
            return [w[0]], w[1:]
        return None
    if mode_name == "expect":
        return [w[0] / 2, w[1] / 4], [w[0] / 2, w[1] * 3 / 4]
    w1 = math.floor(w * frac * 1e6) / 1e6
    w2 = w - w1
    if w1 <= 0 or w2 <= 0:
        return None
    return w1, w2


def concrete_rules(ab, pres):
    """Apply a presentation: list of (json_weight, head, body) in concrete
    symbols (decoded), the concrete V in insertion order, concrete S, and the
    terminal map used to translate strings."""
    from .core import dec

    nmap = {k: dec(v) for k, v in pres["nmap"].items()}
    tmap = {k: dec(v) for k, v in pres["tmap"].items()}
    m = dict(nmap)
    m.update(tmap)
    mode_name = ab["mode"]
    split = {k: f for k, f in pres["split"]}
    out = []
    n = len(ab["rules"])
    perm = [k for k in pres["perm"] if k < n]
    perm += [k for k in range(n) if k not in perm]
    for k in perm:
        w, h, b = ab["rules"][k]
        body = tuple(m[y] for y in b)
        if k in split:
            sp = _split_weight(mode_name, w, split[k])
            if sp is not None:
                out.append((sp[0], m[h], body))
                out.append((sp[1], m[h], body))
                continue
        out.append((w, m[h], body))
    if pres.get("merge") and mode_name in ("float", "real"):
        merged, order = {}, []
        for w, h, b in out:
            if (h, b) in merged:
                merged[(h, b)] += w
            else:
                merged[(h, b)] = w
                order.append((h, b))
        out = [(merged[k], k[0], k[1]) for k in order]
    V = [tmap[a] for a in pres["vorder"]]
    return out, V, nmap[ab["S"]], tmap


def build_cfg(ab, pres, mode=None):
    """Concrete library CFG for (abstract grammar, presentation)."""
    from genlm.grammar.cfg import CFG

    from . import chaos

    mode = mode or Mode(ab["mode"])
    rules, V, S, tmap = concrete_rules(ab, pres)
    cfg = CFG(R=mode.R, S=S, V=chaos.make_set(V))
    for w, h, b in rules:
        cfg.add(mode.weight(w), h, *b)
    return cfg, tmap


def cfg_to_raw(cfg, mode=None):
    """Library CFG -> raw (rules, V, S) for the reference evaluators (weights
    converted to the reference's own arithmetic when a mode is given)."""
    conv = mode.to_shadow if mode is not None else (lambda w: w)
    return [(conv(r.w), r.head, tuple(r.body)) for r in cfg.rules], set(cfg.V), cfg.S


# ---------------------------------------------------------------------------
# strings


def all_strings(V, L):
    for n in range(L + 1):
        for t in itertools.product(V, repeat=n):
            yield list(t)


def sample_member(rng, ab, max_len=8, tries=20):
    """Random string of the language by top-down expansion (None if unlucky)."""
    V = set(ab["V"])
    rules = [(h, b) for _, h, b in ab["rules"]]
    P = ref.productive([(1, h, tuple(b)) for h, b in rules], V)
    good = {}
    for h, b in rules:
        if h in P and all(y in V or y in P for y in b):
            good.setdefault(h, []).append(b)
    if ab["S"] not in good:
        return None
    for _ in range(tries):
        form = [ab["S"]]
        steps = 0
        while steps < 60:
            steps += 1
            idx = [i for i, y in enumerate(form) if y not in V]
            if not idx:
                break
            i = idx[0]
            opts = good[form[i]]
            # prefer short bodies when the form is already long
            if len(form) > max_len:
                opts = sorted(opts, key=len)[:1]
            form[i:i + 1] = list(rng.choice(opts))
            if sum(1 for y in form if y in V) > max_len:
                break
        if all(y in V for y in form) and len(form) <= max_len:
            return form
    return None


def strings(rng, ab, L=None, extra=6, cap=130):
    """All strings up to length L (always the empty string), plus sampled
    members up to length 8 and single-token corruptions of them."""
    V = ab["V"]
    if L is None:
        L = 4 if len(V) <= 2 else (4 if len(V) == 3 and cap >= 121 else 3)
    out = [s for s in all_strings(V, L)]
    if len(out) > cap:
        keep = [s for s in out if len(s) <= 2]
        rest = [s for s in out if len(s) > 2]
        rng.shuffle(rest)
        out = keep + rest[: cap - len(keep)]
    seen = {tuple(s) for s in out}
    for _ in range(extra):
        s = sample_member(rng, ab)
        if s is None:
            break
        cands = [s]
        if s:
            c = list(s)
            c[rng.randrange(len(c))] = rng.choice(V)
            cands.append(c)
            c = list(s)
            del c[rng.randrange(len(c))]
            cands.append(c)
        for c in cands:
            if tuple(c) not in seen:
                seen.add(tuple(c))
                out.append(c)
    return out


def trivial(ab):
    """Non-triviality rule for evidence: the grammar generates something."""
    V = set(ab["V"])
    P = ref.productive([(1, h, tuple(b)) for _, h, b in ab["rules"]], V)
    return ab["S"] not in P


def canon(ab):
    """Digest-able canonical form of the abstract grammar (rule multiset)."""
    from .core import digest

    return digest([ab["mode"], ab["S"], sorted(ab["V"]),
                   sorted([repr(w), h, list(b)] for w, h, b in ab["rules"])])


def cap_ambiguity(ab, strs, cap=300):
    """Poly mode: drop strings with more than `cap` derivation trees (counted
    with the integer semiring on the raw rules) - the polynomials the library
    and the reference would have to carry grow with the number of trees, and
    slowness is not a property."""
    if ab["mode"] != "poly":
        return strs
    rules = [(1, h, tuple(b)) for _, h, b in ab["rules"]]
    V = set(ab["V"])
    alg = ref.Alg(0, 1, exact=True)
    null = ref.ref_null(rules, V, alg)
    return [x for x in strs if ref.ref_inside(rules, V, ab["S"], tuple(x), alg, null=null) <= cap]


def prelude(what=0):
    """Earlier, unrelated library activity in the same process over a LARGER
    vocabulary (another grammar's language model was built and queried before
    the one under test).  Results are ignored."""
    from genlm.grammar import CFG, Boolean, Float
    from genlm.grammar.cfglm import BoolCFGLM
    from genlm.grammar.parse.earley import EarleyLM

    text = ("0.2: S -> a S b\n0.1: S -> c S d\n0.1: S -> e f g\n0.1: S -> x y z\n0.1: S -> tok_a tok_b tok_c\n"
            "0.2: S -> S S\n0.2: S ->")
    if what % 2 == 0:
        BoolCFGLM(CFG.from_string(text, Float)).p_next(("a",))
    else:
        EarleyLM(CFG.from_string(text, Float)).p_next(("c",))
    if what % 3 == 0:
        g = CFG.from_string(text.replace("0.", "1."), Float).map_values(lambda x: Boolean.one, Boolean)
        g.prefix_grammar
