"""Runner: seeded search over schedules and fault sequences, isolation,
classification, minimisation, replay, evidence."""
import argparse
import json
import os
import subprocess
import sys
import time
from concurrent.futures import ThreadPoolExecutor

from .core import REPO, VERIF, digest, mix, pretty

PY = sys.executable
CHUNK = 32
DEFAULT_SEED = 20260923

RUNS = {
    # property: (quick runs, thorough runs)
    "C01": (768, 6144),
    "C02": (640, 5120),
    "C04": (512, 4096),
    "C05": (640, 5120),
    "C06": (768, 6144),
    "C08": (1024, 8192),
}
WALL_CAP = {"quick": 1200, "thorough": 7200}
TECHNIQUE = "deterministic simulation: seeded schedule/fault search vs reference model"


def hashseed_for(seed, prop, chunk):
    return mix(seed, prop, "hashseed", chunk) % (2 ** 32)


def _env(hashseed):
    env = dict(os.environ)
    env["PYTHONHASHSEED"] = str(hashseed)
    env["PYTHONPATH"] = VERIF + os.pathsep + REPO
    env["PYTHONWARNINGS"] = "ignore"
    env["PYTHONDONTWRITEBYTECODE"] = "1"
    env.setdefault("OMP_NUM_THREADS", "1")
    env.setdefault("OPENBLAS_NUM_THREADS", "1")
    env.setdefault("MKL_NUM_THREADS", "1")
    return env


class Server:
    """A worker interpreter pinned to one hash seed, executing scenarios on
    demand (used by minimisation and replay)."""

    def __init__(self, hashseed):
        self.p = subprocess.Popen([PY, "-m", "sim.worker"], cwd=VERIF, env=_env(hashseed),
                                  stdin=subprocess.PIPE, stdout=subprocess.PIPE, text=True)

    def call(self, req):
        self.p.stdin.write(json.dumps(req) + "\n")
        self.p.stdin.flush()
        line = self.p.stdout.readline()
        if not line:
            return {"status": "harness-error", "error": "worker exited"}
        return json.loads(line)

    def close(self):
        try:
            self.p.stdin.close()
            self.p.wait(timeout=10)
        except Exception:
            self.p.kill()


def run_chunk(prop, seed, tier, chunk, run_ids, cpu, wall, hashseed=None):
    hs = hashseed_for(seed, prop, chunk) if hashseed is None else hashseed
    reqs = "".join(json.dumps({"cmd": "run", "prop": prop, "seed": seed, "run": r, "tier": tier,
                               "cpu": cpu, "wall": wall}) + "\n" for r in run_ids)
    p = subprocess.Popen([PY, "-m", "sim.worker"], cwd=VERIF, env=_env(hs), stdin=subprocess.PIPE,
                         stdout=subprocess.PIPE, stderr=subprocess.PIPE, text=True)
    try:
        so, se = p.communicate(reqs, timeout=wall * len(run_ids) + 120)
    except subprocess.TimeoutExpired:
        p.kill()
        so, se = p.communicate()
    res = []
    for line in so.splitlines():
        try:
            res.append(json.loads(line))
        except Exception:
            pass
    seen = {r.get("run") for r in res}
    for r in run_ids:
        if r not in seen:
            res.append({"run": r, "status": "harness-error",
                        "error": f"no result from chunk {chunk} (rc={p.returncode}): {se[-1500:]}"})
    for r in res:
        r["hashseed"] = hs
        r["chunk"] = chunk
    return res


# ---------------------------------------------------------------------------
# known findings


def load_known():
    path = os.path.join(VERIF, "known_findings.json")
    if not os.path.exists(path):
        return []
    return json.load(open(path)).get("findings", [])


def match_known(prop, v, known):
    for f in known:
        if f.get("property") != prop or f.get("class") != v.get("class"):
            continue
        sig = v.get("sig") or {}
        if all(sig.get(k) == val for k, val in (f.get("sig") or {}).items()):
            return f
    return None


def unknown_violations(prop, res, known):
    return [v for v in res.get("violations", []) if match_known(prop, v, known) is None]


# ---------------------------------------------------------------------------
# minimisation and replay


def minimise(prop, sc, cls, budget_s=240, log=print):
    from .common import shrink_candidates
    from .props import get as get_prop

    pm = get_prop(prop)
    known = load_known()
    srv = Server(sc.get("hashseed", 0))
    t0 = time.monotonic()
    tried = 0

    def still_fails(c):
        nonlocal srv
        if c.get("hashseed", 0) != sc_cur.get("hashseed", 0):
            s2 = Server(c.get("hashseed", 0))
            try:
                r = s2.call({"cmd": "exec", "prop": prop, "scenario": c, "cpu": 60, "wall": 90})
            finally:
                s2.close()
        else:
            r = srv.call({"cmd": "exec", "prop": prop, "scenario": c, "cpu": 60, "wall": 90})
        if r.get("status") != "violation":
            return None
        if any(v["class"] == cls for v in unknown_violations(prop, r, known)):
            return r
        return None

    sc_cur = sc
    best_res = None
    improved = True
    cands = getattr(pm, "shrink_candidates", shrink_candidates)
    while improved and time.monotonic() - t0 < budget_s:
        improved = False
        for c in cands(sc_cur):
            if time.monotonic() - t0 > budget_s:
                break
            tried += 1
            r = still_fails(c)
            if r is not None:
                if c.get("hashseed", 0) != sc_cur.get("hashseed", 0):
                    srv.close()
                    srv = Server(c.get("hashseed", 0))
                sc_cur = c
                best_res = r
                improved = True
                break
    srv.close()
    log(f"  minimised: {tried} candidates tried in {time.monotonic() - t0:.0f}s")
    return sc_cur, best_res


def exec_fresh(prop, sc):
    srv = Server(sc.get("hashseed", 0))
    try:
        return srv.call({"cmd": "exec", "prop": prop, "scenario": sc, "cpu": 120, "wall": 200})
    finally:
        srv.close()


def write_replay(prop, sc, res, cls, minimised):
    os.makedirs(os.path.join(VERIF, "replays"), exist_ok=True)
    name = f"{prop}-{sc.get('seed', 0)}-{sc.get('run', 'x')}-{cls.replace(':', '_').replace('/', '_')}.json"
    path = os.path.join(VERIF, "replays", name)
    vs = [v for v in res.get("violations", []) if v["class"] == cls]
    doc = {
        "property": prop, "violation_class": cls, "minimised": minimised,
        "expect": {"class": cls, "log_digest": res.get("log_digest")},
        "violation": vs[0] if vs else None,
        "scenario": sc,
        "how_to_replay": f"./check {prop} --replay {path}",
    }
    with open(path, "w") as f:
        f.write(pretty(json.loads(json.dumps(doc, default=repr)), depth=4) + "\n")
    return path


def replay(prop, path):
    doc = json.load(open(path))
    sc = doc["scenario"]
    known = load_known()
    r = exec_fresh(prop, sc)
    cls = doc.get("violation_class")
    got = [v for v in unknown_violations(prop, r, known)]
    same = any(v["class"] == cls for v in got)
    print(f"replay status={r.get('status')} classes={sorted({v['class'] for v in r.get('violations', [])})} "
          f"log_digest={r.get('log_digest')} expected_digest={doc.get('expect', {}).get('log_digest')}")
    if r.get("status") == "harness-error":
        print(r.get("error"))
        return 2
    for v in r.get("violations", [])[:3]:
        print("  ", json.dumps(v, ensure_ascii=False, default=repr)[:600])
    if same:
        ok = r.get("log_digest") == doc.get("expect", {}).get("log_digest")
        print("REPLAY-MATCH" if ok else "REPLAY-SAME-CLASS-DIFFERENT-DIGEST")
        print(f"VIOLATION property={prop} replay={path}")
        return 1
    if got:
        print(f"VIOLATION property={prop} replay={path}")
        return 1
    print("replay: no violation reproduced on this tree")
    return 0


# ---------------------------------------------------------------------------
# main search


def search(prop, tier, seed, runs=None, workers=None, wall_cap=None, log=print, write=True):
    t0 = time.time()
    runs = runs or RUNS[prop][0 if tier == "quick" else 1]
    workers = workers or min(16, os.cpu_count() or 4)
    wall_cap = wall_cap or WALL_CAP[tier]
    # CPU-time limits decide; the wall limit is only a backstop (8x) and never a verdict
    cpu, wall = (150, 1200) if tier == "quick" else (240, 1920)
    chunks = [(c, list(range(c * CHUNK, min(runs, (c + 1) * CHUNK)))) for c in range((runs + CHUNK - 1) // CHUNK)]
    known = load_known()
    results = []
    skipped_chunks = 0

    def job(c_ids):
        c, ids = c_ids
        if time.time() - t0 > wall_cap:
            return None
        return run_chunk(prop, seed, tier, c, ids, cpu, wall)

    with ThreadPoolExecutor(max_workers=workers) as ex:
        for rs in ex.map(job, chunks):
            if rs is None:
                skipped_chunks += 1
            else:
                results.extend(rs)

    results.sort(key=lambda r: (r.get("run") is None, r.get("run")))
    agg = aggregate(prop, results)
    exit_code = 0
    lines = []

    herr = [r for r in results if r.get("status") == "harness-error"]
    budget = [r for r in results if r.get("status") == "budget"]
    # bounded liveness: a run over budget is re-executed once alone
    # A hang is reported only if the re-execution exhausts 3x the CPU budget
    # *inside a library call* that has used >= 30x the CPU of everything else
    # in the run (reference included): a slow reference or a workload that is
    # legitimately expensive (polynomial blow-up) is an overrun, not a verdict.
    hangs = []
    overruns = []
    for r in budget[:4]:
        rr = run_chunk(prop, seed, tier, r["chunk"], [r["run"]], cpu * 3, wall * 3)[0]
        if rr.get("status") == "budget":
            lib, tot = rr.get("lib_cpu", 0.0), rr.get("total_cpu", 0.0)
            if rr.get("kind") == "cpu" and rr.get("in_lib") and lib >= 30 * max(1.0, tot - lib):
                hangs.append(dict(r, detail=rr))
            else:
                overruns.append(dict(r, detail={k: rr.get(k) for k in ("kind", "lib_cpu", "total_cpu", "component")}))
        elif rr.get("status") in ("ok", "violation"):
            results[results.index(r)] = rr
    for r in overruns:
        lines.append(f"BUDGET-OVERRUN run={r['run']} (no verdict): {r['detail']}")
    viol_runs = [r for r in results if r.get("status") == "violation"]
    known_hit = {}
    new = []
    for r in viol_runs:
        for v in r.get("violations", []):
            f = match_known(prop, v, known)
            if f is not None:
                known_hit[f["id"]] = f
            else:
                new.append((r, v))
    for f in known_hit.values():
        lines.append(f"KNOWN-FINDING: property={prop} {f['what']}")
    reported = set()
    replay_paths = []
    for r, v in new:
        cls = v["class"]
        if cls in reported:
            continue
        reported.add(cls)
        sc = r["scenario"]
        log(f"violation class={cls} run={r.get('run')} hashseed={r.get('hashseed')}: minimising ...")
        budget_s = 120 if tier == "quick" else 420
        if len(reported) > 3:
            budget_s = 20
        sc_min, res_min = minimise(prop, sc, cls, budget_s=budget_s, log=log)
        minimised = res_min is not None
        if minimised:
            # must reproduce twice in fresh processes, same class and same digest
            a = exec_fresh(prop, sc_min)
            b = exec_fresh(prop, sc_min)
            ok = all(any(x["class"] == cls for x in y.get("violations", [])) for y in (a, b)) and \
                a.get("log_digest") == b.get("log_digest")
            if not ok:
                minimised = False
        if minimised:
            path = write_replay(prop, sc_min, a, cls, True)
        else:
            a = exec_fresh(prop, sc)
            path = write_replay(prop, sc, a if a.get("violations") else r, cls, False)
        replay_paths.append(path)
        lines.append(f"VIOLATION property={prop} replay={path}")
        lines.append("  " + json.dumps(v, ensure_ascii=False, default=repr)[:700])
        exit_code = 1
    for r in hangs:
        path = os.path.join(VERIF, "replays", f"{prop}-{seed}-{r['run']}-hang.json")
        os.makedirs(os.path.dirname(path), exist_ok=True)
        json.dump({"property": prop, "violation_class": "hang", "seed": seed, "run": r["run"], "detail": r.get("detail"),
                   "tier": tier, "hashseed": r["hashseed"],
                   "how_to_replay": f"VERIF_SEED={seed} ./check {prop} --tier {tier} --only-run {r['run']}"},
                  open(path, "w"), indent=1)
        lines.append(f"VIOLATION property={prop} replay={path}")
        exit_code = 1
    if herr and exit_code == 0:
        exit_code = 2
    n_done = sum(1 for r in results if r.get("status") in ("ok", "violation"))
    n_skip = sum(1 for r in results if r.get("status") == "skip")
    if exit_code == 0 and n_done < max(1, 0.5 * len(results)):
        lines.append(f"HARNESS-ERROR: only {n_done}/{len(results)} runs completed")
        exit_code = 2
    wall_s = time.time() - t0
    if write:
        write_evidence(prop, tier, seed, agg, results, wall_s, len(new), known_hit, skipped_chunks,
                       len(budget), len(hangs), n_skip, workers)
    for ln in lines:
        print(ln)
    for r in herr[:3]:
        print(f"HARNESS-ERROR run={r.get('run')}: {r.get('error', '')[-1500:]}")
    slow = sorted(agg["cpu"], reverse=True)[:3]
    print(f"slowest runs (cpu_s, run): {slow}")
    print(f"{prop} {tier}: runs={len(results)} completed={n_done} skipped={n_skip} "
          f"violating_runs={len(viol_runs)} new_classes={len(reported)} known={len(known_hit)} "
          f"harness_errors={len(herr)} budget={len(budget)} evals={agg['evals']} wall={wall_s:.0f}s exit={exit_code}")
    return exit_code


def aggregate(prop, results):
    agg = {"evals": 0, "steps": 0, "probes": {}, "sigs": set(), "digests": set(), "samples": [],
           "nontrivial_runs": 0, "hashseeds": set(), "cpu": []}
    for r in results:
        if r.get("status") not in ("ok", "violation"):
            continue
        agg["evals"] += r.get("evals", 0)
        agg["cpu"].append((r.get("cpu_s", 0.0), r.get("run")))
        agg["steps"] += r.get("steps", 0)
        for k, v in (r.get("probes") or {}).items():
            agg["probes"][k] = agg["probes"].get(k, 0) + v
        if r.get("nontrivial"):
            agg["nontrivial_runs"] += 1
            sig = r.get("sig")
            for s in (sig if isinstance(sig, list) else [sig]):
                if s is not None:
                    agg["sigs"].add(s)
        agg["digests"].add(r.get("log_digest"))
        agg["hashseeds"].add(r.get("hashseed"))
        if r.get("sample") is not None and len(agg["samples"]) < 4 and r.get("nontrivial"):
            agg["samples"].append({"run": r.get("run"), "hashseed": r.get("hashseed"), "case": r["sample"]})
    return agg


def write_evidence(prop, tier, seed, agg, results, wall_s, n_new, known_hit, skipped_chunks,
                   n_budget, n_hangs, n_skip, workers):
    from .props import get as get_prop

    pm = get_prop(prop)
    n_done = sum(1 for r in results if r.get("status") in ("ok", "violation"))
    probes = agg["probes"]
    faults = {k[len("fault_"):]: v for k, v in probes.items() if k.startswith("fault_")}
    chaos_stats = {k[len("chaos_"):]: v for k, v in probes.items() if k.startswith("chaos_")}
    ev = {
        "property_id": prop,
        "tier": tier,
        "seed": int(seed),
        "level": "exploration",
        "coverage": {
            "evaluations": int(agg["evals"]),
            "distinct_nontrivial": len(agg["sigs"]),
            "rule": getattr(pm, "RULE", ""),
            "samples": agg["samples"] or [{"note": "no non-trivial sample recorded"}],
            "runs": len(results),
            "runs_completed": n_done,
            "runs_nontrivial": agg["nontrivial_runs"],
            "runs_skipped_reference_out_of_domain": n_skip,
            "runs_over_budget": n_budget,
            "hangs_confirmed": n_hangs,
            "chunks_not_started_wall_cap": skipped_chunks,
            "runs_per_hour": round(n_done / max(wall_s, 1e-9) * 3600),
            "seeds": {"VERIF_SEED": int(seed), "run_indices": [0, len(results) - 1],
                      "run_seed": "mix(VERIF_SEED, property, run_index)"},
            "hash_seeds_used": len(agg["hashseeds"]),
            "simulated_time": "not applicable (no clock in the system); logical steps reported instead",
            "logical_steps": int(agg["steps"]),
            "scheduler_decisions": chaos_stats,
            "fault_kinds_fired": faults,
            "real_vs_stub": {k[len("seam_"):]: v for k, v in probes.items() if k.startswith("seam_")},
            "probes": {k: v for k, v in probes.items()
                       if not k.startswith("fault_") and not k.startswith("chaos_") and not k.startswith("seam_")},
            "distinct_event_log_digests": len(agg["digests"]),
            "components": getattr(pm, "COMPONENTS", {}),
            "workers": workers,
            "cpu_s_total": round(sum(c for c, _ in agg["cpu"]), 1),
            "cpu_s_slowest_runs": [[c, r] for c, r in sorted(agg["cpu"], reverse=True)[:5]],
            "known_findings_hit": sorted(known_hit),
            "exhaustive": False,
        },
        "assumptions": getattr(pm, "ASSUMPTIONS", []),
        "wall_s": round(wall_s, 2),
        "violations": int(n_new),
    }
    os.makedirs(os.path.join(VERIF, "evidence"), exist_ok=True)
    with open(os.path.join(VERIF, "evidence", f"{prop}.json"), "w") as f:
        f.write(pretty(json.loads(json.dumps(ev, default=repr)), depth=4) + "\n")


def main(argv=None):
    try:
        sys.stdout.reconfigure(line_buffering=True)
    except Exception:
        pass
    ap = argparse.ArgumentParser()
    ap.add_argument("prop")
    ap.add_argument("--tier", default=os.environ.get("VERIF_TIER", "quick"))
    ap.add_argument("--replay")
    ap.add_argument("--runs", type=int)
    ap.add_argument("--workers", type=int)
    ap.add_argument("--seed", type=int)
    ap.add_argument("--only-run", type=int)
    ap.add_argument("--no-evidence", action="store_true")
    for flag in ("--full", "--determinism", "--oracles", "--sensitivity"):
        ap.add_argument(flag, action="store_true")
    a = ap.parse_args(argv)
    if a.prop == "selftest":
        from . import selftest

        return selftest.main(a)
    prop = a.prop.upper()
    if a.replay:
        return replay(prop, a.replay)
    seed = a.seed if a.seed is not None else int(os.environ.get("VERIF_SEED", DEFAULT_SEED))
    tier = a.tier if a.tier in ("quick", "thorough") else "quick"
    print(f"VERIF_SEED={seed} property={prop} tier={tier} repo={REPO}")
    if a.only_run is not None:
        c = a.only_run // CHUNK
        rs = run_chunk(prop, seed, tier, c, [a.only_run], 600, 900)
        r = rs[0]
        print(json.dumps({k: v for k, v in r.items() if k != "scenario"}, indent=1, default=repr)[:6000])
        return 0 if r.get("status") == "ok" else 1
    return search(prop, tier, seed, runs=a.runs, workers=a.workers, write=not a.no_evidence)


if __name__ == "__main__":
    sys.exit(main())
