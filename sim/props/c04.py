"""C04 — grammar language models are the exact left-to-right factorisation, for
the three back-ends, whatever the schedule; long contexts with tiny
probabilities for the rescaled variant."""
import math

from .. import chaos, gen, ref
from ..common import Outcome, apply_schedule, draw_schedule, guarded
from ..core import digest, rng_for
from ..modes import Mode

ID = "C04"
RULE = ("short runs: one swarm-generated convergent float grammar (raw or locally normalised) under 2-3 schedules, "
        "three LM back-ends (EarleyLM, rescaled EarleyLM, CKYLM) plus the raw next_token_weights of Earley and "
        "IncrementalCKY on the prefix grammar; every context over V+EOS up to length 3 plus viable walks, in a "
        "seeded shuffled order on one shared object; conditionals compared with Jelinek-Lafferty prefix weights "
        "computed on the raw rule list, sums to one / all-zero, chain rule against inside/total.  long runs: named "
        "families with closed forms (a^n b^n, palindromes, Dyck, right/left-linear, Catalan), contexts of 60-400 "
        "tokens, EarleyLM / rescaled EarleyLM / rescaled Earley logp against the closed form.  non-trivial = "
        "language non-empty; distinct = distinct (grammar, schedule) digests")
COMPONENTS = {
    "real": ["EarleyLM, earley_rescaled.EarleyLM, CKYLM, Earley / rescaled Earley / IncrementalCKY, add_EOS, "
             "prefix_grammar composition, locally_normalize, LM.__call__/p_next_seq, Chart.normalize"],
    "stub": ["set/frozenset/LocatorMaxHeap replaced by seeded ChaosSet/ChaosFrozenSet/ChaosHeap in the share of "
             "schedules with the seam on"],
}
ASSUMPTIONS = [
    "reference prefix weights: sim.ref.ref_prefix (validated against the identity prefix(p) = w(p) + sum_a prefix(p a) and a global Kleene version in the self-test)",
    "conditionals compared with |d| <= 1e-7 + 1e-9/prefix(ctx) + 1e-6 relative, only for contexts with prefix weight >= 1e-6 (the library's null weights carry an absolute 1e-12 tolerance); support and sum-to-one are checked for every context",
    "when the run normalises the grammar, the reference evaluates the grammar that locally_normalize returned (C20 is not claimed)",
]
LONG = ["anbn", "pal", "dyck", "rlin", "llin", "catalan"]


def generate(rng, tier):
    if rng.random() < (0.12 if tier == "quick" else 0.15):
        return _generate_long(rng, tier)
    ab = gen.grammar(rng, "float", tier, max_rules=9)
    # keep weights away from the library's absolute tolerances
    ab["rules"] = [[max(w, 0.02), h, b] for w, h, b in ab["rules"]]
    ab["normalize"] = rng.random() < 0.5
    K = rng.choice([2, 2, 3])
    scheds = [draw_schedule(rng, ab, gen, identity=(i == 0 and rng.random() < 0.4)) for i in range(K)]
    V = ab["V"]
    L = 3 if len(V) <= 2 else 2
    ctxs = [c for c in gen.all_strings(V, L)]
    seen = {tuple(c) for c in ctxs}
    for _ in range(4 if tier == "quick" else 8):
        s = gen.sample_member(rng, ab, max_len=8)
        if s is None:
            break
        for k in range(len(s) + 1):
            for c in (s[:k], s[:k] + [gen.EOS], s[:k] + [rng.choice(V)]):
                if tuple(c) not in seen:
                    seen.add(tuple(c))
                    ctxs.append(c)
    ctxs += [[gen.EOS], [V[0], gen.EOS, V[0]]]
    ctxs = ctxs[:70 if tier == "quick" else 120]
    return {"property": ID, "kind": "short", "grammar": ab, "contexts": ctxs, "schedules": scheds,
            "query_order_seed": rng.getrandbits(32), "prelude": rng.choice([None, None, 0, 1, 2, 3]),
            "backends": ["earleylm", "rescaledlm", "ckylm", "earley_ntw", "icky_ntw"]}


def _generate_long(rng, tier):
    name = rng.choice(LONG)
    # small q = very small string probabilities (far below the double range
    # for a few hundred tokens): the rescaled variant must still be exact
    q = {"anbn": rng.choice([0.001, 0.01, 0.3, 0.6, 0.9]), "pal": rng.choice([0.001, 0.01, 0.2, 0.3, 0.45]),
         "dyck": rng.choice([0.001, 0.01, 0.2, 0.35, 0.45]), "rlin": rng.choice([0.0001, 0.001, 0.01, 0.3, 0.7, 0.95]),
         "llin": rng.choice([0.0001, 0.001, 0.01, 0.3, 0.7, 0.95]), "catalan": rng.choice([0.2, 0.35, 0.45])}[name]
    ab = gen.named(name, q)
    n = rng.choice([60, 110, 200, 300, 400]) if tier == "quick" else rng.choice([110, 200, 300, 400, 500])
    if name == "catalan":
        n = min(n, 40)
    backends = ["rescaledlm", "earleylm", "rescaled_logp"]
    if rng.random() < 0.35:
        # medium contexts with small (but representable) probabilities for the
        # cubic-time CKY LM as well: relative accuracy must not degrade
        n = rng.choice([10, 16, 24])
        backends = ["ckylm", "earleylm", "rescaledlm"]
    x = gen.named_long_string(name, rng, n)
    scheds = [draw_schedule(rng, ab, gen, identity=rng.random() < 0.3)]
    return {"property": ID, "kind": "long", "grammar": ab, "name": name, "q": q, "string": x,
            "schedules": scheds, "positions_seed": rng.getrandbits(32), "backends": backends}


# ---------------------------------------------------------------------------
# closed forms (log weights of complete strings and of prefixes)


def _lognCr(n, r):
    return math.lgamma(n + 1) - math.lgamma(r + 1) - math.lgamma(n - r + 1)


def closed_logw(name, q, x):
    """log weight of the complete string x (must be in the language), Z = 1."""
    n = len(x)
    if name == "anbn":
        return (n // 2) * math.log(q) + math.log(1 - q)
    if name == "pal":
        return (n // 2) * math.log(q) + math.log(1 - 2 * q)
    if name == "dyck":
        k = n // 2
        return k * math.log(q) + (k + 1) * math.log(1 - q)
    if name in ("rlin", "llin"):
        return (n - 1) * math.log(q) + math.log(1 - q)
    if name == "catalan":
        k = n - 1  # number of binary rule uses; Catalan(k) trees
        logcat = _lognCr(2 * k, k) - math.log(k + 1)
        return logcat + k * math.log(q) + n * math.log(1 - q)
    raise ValueError(name)


def closed_next(name, q, ctx, a_tok="a", b_tok="b"):
    """Closed-form conditional distribution after ctx (a prefix of the given
    long member string), where it is easy; None where it is not."""
    if name == "anbn":
        na = sum(1 for t in ctx if t == "a")
        nb = len(ctx) - na
        if nb == 0:
            return {"a": q, "b": 1 - q} if na > 0 else {"a": q, gen.EOS: 1 - q}
        if nb < na:
            return {"b": 1.0}
        return {gen.EOS: 1.0}
    if name == "rlin":
        if ctx and ctx[-1] == "b":
            return {gen.EOS: 1.0}
        return {"a": q, "b": 1 - q}
    if name == "llin":
        if not ctx:
            return {"b": 1.0}
        return {"a": q, gen.EOS: 1 - q}
    return None


def execute(sc):
    if sc.get("kind") == "long":
        return _execute_long(sc)
    return _execute_short(sc)


def _lm(backend, cfg):
    if backend == "earleylm":
        from genlm.grammar.parse.earley import EarleyLM
        return EarleyLM(cfg)
    if backend == "rescaledlm":
        from genlm.grammar.parse.earley_rescaled import EarleyLM
        return EarleyLM(cfg)
    if backend == "ckylm":
        from genlm.grammar.parse.cky import CKYLM
        return CKYLM(cfg)
    raise ValueError(backend)


def _execute_short(sc):
    from genlm.grammar.cfglm import add_EOS, locally_normalize

    out = Outcome()
    ab = sc["grammar"]
    mode = Mode("float")
    alg = mode.alg
    canon = gen.canon(ab)
    out.sig = []
    out.nontrivial = not gen.trivial(ab)
    if sc.get("prelude") is not None:
        try:
            gen.prelude(int(sc["prelude"]))
            out.probe("prelude_other_vocabulary")
        except Exception:
            out.probe("prelude_raised")
    for si, s in enumerate(sc["schedules"]):
        apply_schedule(s)
        chaos.note_event(f"schedule {si}")
        out.sig.append(digest([canon, s]))
        ok, built = guarded(out, "build", lambda: gen.build_cfg(ab, s["pres"], mode))
        if not ok:
            continue
        cfg, tmap = built
        if ab.get("normalize"):
            ok, cfg = guarded(out, "locally_normalize", lambda: locally_normalize(cfg))
            if not ok:
                continue
        # reference quantities on the grammar actually handed to the LMs
        rules, V, S = gen.cfg_to_raw(cfg)
        rules = [(float(w), h, b) for w, h, b in rules]
        V = set(V)
        Z = ref.ref_total(rules, V, alg)
        null = ref.ref_null(rules, V, alg)
        Zs = Z.get(S, 0.0)
        cache = {}

        def prefix(c):
            if c not in cache:
                cache[c] = ref.ref_prefix(rules, V, S, c, alg, Z=Z, null=null)
            return cache[c]

        def inside(c):
            k = ("in",) + c
            if k not in cache:
                cache[k] = ref.ref_inside(rules, V, S, c, alg, null=null)
            return cache[k]

        def expected(cctx):
            """Reference conditional distribution; None = context not viable."""
            if gen.EOS in cctx or any(t not in V for t in cctx):
                return None
            pc = prefix(cctx)
            if pc <= 0:
                return None
            d = {}
            for t in V:
                v = prefix(cctx + (t,))
                if v > 0:
                    d[t] = v / pc
            v = inside(cctx)
            if v > 0:
                d[gen.EOS] = v / pc
            return d, pc

        objs = {}
        for be in sc["backends"]:
            if be in ("earleylm", "rescaledlm", "ckylm"):
                ok, lm = guarded(out, be, lambda: _lm(be, cfg), sig={"phase": "construct"})
            elif be == "earley_ntw":
                def mk():
                    from genlm.grammar.parse.earley import Earley
                    return Earley(add_EOS(cfg).prefix_grammar)
                ok, lm = guarded(out, be, mk, sig={"phase": "construct"})
            else:
                def mk2():
                    from genlm.grammar.parse.cky import IncrementalCKY
                    return IncrementalCKY(add_EOS(cfg).cnf.prefix_grammar.cnf)
                ok, lm = guarded(out, be, mk2, sig={"phase": "construct"})
            if ok:
                objs[be] = lm
        order = list(range(len(sc["contexts"])))
        rng_for(sc.get("query_order_seed", 0), si).shuffle(order)
        for ci in order:
            ctx = sc["contexts"][ci]
            cctx = tuple(tmap.get(a, a) for a in ctx)
            exp = expected(cctx)
            out.probe("viable_contexts" if exp else "nonviable_contexts")
            for be, lm in objs.items():
                sig = {"backend": be, "viable": bool(exp)}
                if be.endswith("_ntw"):
                    fn = (lambda: lm.next_token_weights(lm.chart(cctx))) if be == "earley_ntw" else (lambda: lm.p_next(cctx))
                else:
                    fn = lambda: lm.p_next(cctx)  # noqa
                ok, p = guarded(out, be, fn, sig=sig)
                out.evals += 1
                out.steps += 1
                if not ok:
                    continue
                got = {t: float(v) for t, v in p.items() if v != 0}
                if exp is None:
                    if got:
                        out.violation(f"lm:nonviable-nonzero:{be}", sig=sig, ctx=list(ctx), got=_fmt(got), schedule=si)
                    continue
                d, pc = exp
                if be.endswith("_ntw"):
                    # unnormalised: weight of ctx.t under the prefix grammar
                    want = {t: v * pc for t, v in d.items()}
                    tolf = lambda w: 1e-9 + 1e-5 * abs(w)  # noqa
                else:
                    want = d
                    tot = sum(got.values())
                    # a viable context whose prefix weight is below the library's absolute
                    # fixed-point tolerance may legitimately come out as all-zero
                    if abs(tot - 1.0) > 1e-8 and not (pc < 1e-9 and tot == 0):
                        out.violation(f"lm:not-normalised:{be}", sig=sig, ctx=list(ctx), total=repr(tot), schedule=si)
                    tolf = lambda w: 1e-7 + 1e-9 / pc + 1e-6 * abs(w)  # noqa
                if pc < 1e-6:
                    # tiny prefix weights: support only (library tolerances are absolute)
                    big = {t for t, v in want.items() if v * (pc if not be.endswith("_ntw") else 1) > 1e-10}
                    if not big <= set(got):
                        out.violation(f"lm:support:{be}", sig=sig, ctx=list(ctx), got=_fmt(got), want=_fmt(want), schedule=si)
                    continue
                bad = [t for t in set(got) | set(want) if abs(got.get(t, 0.0) - want.get(t, 0.0)) > tolf(want.get(t, 0.0))]
                if bad:
                    out.violation(f"lm:conditional:{be}", sig=sig, ctx=list(ctx), token=str(bad[0]), got=_fmt(got),
                                  want=_fmt(want), prefix_weight=repr(pc), schedule=si)
            chaos.note_event(f"ctx {ctx}")
        # chain rule: lm(x + EOS) = w(x) / Z   for complete strings among the contexts
        for ci in order[:25]:
            ctx = sc["contexts"][ci]
            cctx = tuple(tmap.get(a, a) for a in ctx)
            if gen.EOS in cctx and all(t in V or t == gen.EOS for t in cctx):
                # nothing follows an end-of-sequence: the chain-rule probability of
                # any sequence with an interior EOS is zero
                for be in ("earleylm", "rescaledlm", "ckylm"):
                    if be not in objs:
                        continue
                    ok, got = guarded(out, be, lambda: objs[be](cctx + (gen.EOS,)), sig={"backend": be, "q": "chain-eos"})
                    ok2, got2 = guarded(out, be, lambda: objs[be].p_next_seq((), cctx + (gen.EOS,)),
                                        sig={"backend": be, "q": "p_next_seq-eos"})
                    out.evals += 2
                    out.probe("interior_eos_sequences")
                    for nm, o, g in (("call", ok, got), ("p_next_seq", ok2, got2)):
                        if o and float(g) != 0.0:
                            out.violation(f"lm:interior-eos:{be}", sig={"backend": be, "q": nm}, string=list(ctx),
                                          got=repr(float(g)), want="0", schedule=si)
                continue
            if gen.EOS in cctx or any(t not in V for t in cctx) or Zs <= 0:
                continue
            want = inside(cctx) / Zs
            for be in ("earleylm", "rescaledlm", "ckylm"):
                if be not in objs:
                    continue
                ok, got = guarded(out, be, lambda: objs[be](cctx + (gen.EOS,)), sig={"backend": be, "q": "chain"})
                out.evals += 1
                if ok and abs(float(got) - want) > 1e-8 + 1e-5 * abs(want) + 1e-9 / max(Zs, 1e-9):
                    out.violation(f"lm:chain-rule:{be}", sig={"backend": be}, string=list(ctx), got=repr(float(got)),
                                  want=repr(want), Z=repr(Zs), schedule=si)
        # p_next_seq(ctx, ext) = prefix(ctx.ext) / prefix(ctx)  (ext may end in EOS)
        for ci in order[:20]:
            ctx = sc["contexts"][ci]
            cctx = tuple(tmap.get(a, a) for a in ctx)
            if len(cctx) < 1 or gen.EOS in cctx or any(t not in V for t in cctx):
                continue
            k = rng_for(sc.get("query_order_seed", 0), "split", ci).randrange(len(cctx))
            head, ext = cctx[:k], cctx[k:]
            ph = prefix(head)
            if ph < 1e-6:
                continue
            with_eos = (ci % 2 == 0)
            num = inside(cctx) if with_eos else prefix(cctx)
            want = num / ph
            ext2 = ext + ((gen.EOS,) if with_eos else ())
            for be in ("earleylm", "rescaledlm", "ckylm"):
                if be not in objs:
                    continue
                ok, got = guarded(out, be, lambda: objs[be].p_next_seq(head, ext2), sig={"backend": be, "q": "p_next_seq"})
                out.evals += 1
                if ok and abs(float(got) - want) > 1e-7 + 1e-9 / ph + 1e-5 * abs(want):
                    out.violation(f"lm:p_next_seq:{be}", sig={"backend": be}, ctx=list(ctx), split=k, eos=with_eos,
                                  got=repr(float(got)), want=repr(want), schedule=si)
    out.probes.update({f"chaos_{k}": v for k, v in chaos.stats().items()})
    out.sample = {"kind": "short", "grammar": ab["rules"], "normalize": ab.get("normalize"),
                  "n_contexts": len(sc["contexts"]), "features": ab.get("features")}
    return out


def _fmt(d):
    return {str(k): float(f"{v:.6g}") for k, v in sorted(d.items(), key=lambda kv: str(kv[0]))}


def _execute_long(sc):
    out = Outcome()
    ab = sc["grammar"]
    name, q, x = sc["name"], sc["q"], tuple(sc["string"])
    mode = Mode("float")
    out.nontrivial = True
    out.sig = []
    want_logw = closed_logw(name, q, x)
    for si, s in enumerate(sc["schedules"]):
        apply_schedule(s)
        out.sig.append(digest([gen.canon(ab), s, len(x)]))
        cfg, tmap = gen.build_cfg(ab, s["pres"], mode)
        cx = tuple(tmap[a] for a in x)
        inv = {v: k for k, v in tmap.items()}
        out.probe("long_context_tokens", len(x))
        if want_logw < -709:
            out.probe("long_below_double_range")
        if want_logw < -1400:
            out.probe("long_below_1e-600")
        if "rescaled_logp" in sc["backends"]:
            from genlm.grammar.cfglm import add_EOS
            from genlm.grammar.parse.earley_rescaled import Earley as REarley
            # The rescaled parser rescales by the weight of the complete item of
            # the start symbol, i.e. it is exact far below the double range on
            # *prefix* grammars (where every viable prefix completes it) - that
            # is how the LM uses it.  logp(x + EOS) there is log weight(x).
            ok, got = guarded(out, "rescaled_logp",
                              lambda: REarley(add_EOS(cfg).prefix_grammar).logp(cx + (gen.EOS,)), sig={"name": name})
            out.evals += 1
            if ok and not (abs(float(got) - want_logw) <= 1e-9 * abs(want_logw) + 1e-8):
                out.violation("lm:long-logp:rescaled", sig={"name": name}, n=len(x), got=repr(float(got)),
                              want=repr(want_logw), schedule=si)
            if want_logw > -600:
                # on the plain grammar no rescaling applies between complete
                # strings; only claimed inside the double range
                ok, got = guarded(out, "rescaled_logp_plain", lambda: REarley(cfg).logp(cx), sig={"name": name})
                out.evals += 1
                if ok and not (abs(float(got) - want_logw) <= 1e-9 * abs(want_logw) + 1e-8):
                    out.violation("lm:long-logp-plain:rescaled", sig={"name": name}, n=len(x), got=repr(float(got)),
                                  want=repr(want_logw), schedule=si)
                ok, got = guarded(out, "rescaled_call", lambda: REarley(cfg)(cx), sig={"name": name})
                out.evals += 1
                wv = math.exp(want_logw)
                if ok and not (abs(float(got) - wv) <= 1e-7 * wv):
                    out.violation("lm:long-call:rescaled", sig={"name": name}, n=len(x), got=repr(float(got)),
                                  want=repr(wv), schedule=si)
        rng = rng_for(sc.get("positions_seed", 0), si)
        for be in sc["backends"]:
            if be not in ("earleylm", "rescaledlm", "ckylm"):
                continue
            if be in ("earleylm", "ckylm") and want_logw < -600:
                # The plain parsers are expected to lose precision / underflow there.
                # What the property still states for a viable context whose prefix
                # weight is a (subnormal but) non-zero double: a distribution that
                # is finite and sums to one.  Only that is checked, at the prefixes
                # a^k (rlin, anbn) / b a^k (llin) whose weight q^k lies in the
                # subnormal range.
                if be == "earleylm" and name in ("rlin", "anbn", "llin"):
                    ks = [k for k in range(1, len(cx) // 2) if -740.0 < k * math.log(q) < -712.0]
                    ok, lm = guarded(out, be, lambda: _lm(be, cfg), sig={"phase": "construct"})
                    for k in ks[:4] if ok else []:
                        pre_ = (cx[:k] if name != "llin" else cx[:k + 1])
                        ok2, p = guarded(out, be, lambda: lm.p_next(pre_), sig={"backend": be, "subnormal": True})
                        out.evals += 1
                        out.probe("subnormal_prefix_contexts")
                        if not ok2:
                            continue
                        vals = [float(v) for v in p.values()]
                        tot = sum(vals)
                        if any(math.isnan(v) or math.isinf(v) for v in vals) or not (abs(tot - 1.0) <= 1e-6):
                            out.violation(f"lm:long-subnormal:{be}", sig={"name": name}, position=k, total=repr(tot),
                                          schedule=si)
                            break
                continue
            ok, lm = guarded(out, be, lambda: _lm(be, cfg), sig={"phase": "construct"})
            if not ok:
                continue
            # sum of log conditionals along x + EOS == closed form (Z = 1)
            total = 0.0
            fail = False
            seq = cx + (gen.EOS,)
            for i, y in enumerate(seq):
                ok, p = guarded(out, be, lambda: lm.p_next(seq[:i]), sig={"backend": be, "long": True})
                out.evals += 1
                out.steps += 1
                if not ok:
                    fail = True
                    break
                tot = sum(float(v) for v in p.values())
                if abs(tot - 1.0) > 1e-8:
                    out.violation(f"lm:long-not-normalised:{be}", sig={"name": name}, position=i, total=repr(tot), schedule=si)
                    fail = True
                    break
                v = float(p[y])
                if v <= 0:
                    out.violation(f"lm:long-zero-on-member:{be}", sig={"name": name}, position=i, schedule=si)
                    fail = True
                    break
                total += math.log(v)
                cf = closed_next(name, q, [inv.get(t, t) for t in seq[:i]])
                if cf is not None:
                    got = {inv.get(t, t): float(w) for t, w in p.items() if w != 0}
                    bad = [t for t in set(got) | set(cf) if abs(got.get(t, 0.0) - cf.get(t, 0.0)) > 1e-8]
                    if bad:
                        out.violation(f"lm:long-conditional:{be}", sig={"name": name}, position=i, got=_fmt(got),
                                      want=_fmt(cf), schedule=si)
                        fail = True
                        break
            if not fail and not (abs(total - want_logw) <= 1e-8 * abs(want_logw) + 1e-8):
                out.violation(f"lm:long-chain:{be}", sig={"name": name}, n=len(x), got=repr(total),
                              want=repr(want_logw), schedule=si)
    out.probes.update({f"chaos_{k}": v for k, v in chaos.stats().items()})
    out.sample = {"kind": "long", "name": name, "q": q, "n": len(x), "log_weight": want_logw}
    return out


def shrink_candidates(sc):
    """Long runs: the closed form belongs to the named grammar and the member
    string, so only the schedule is simplified."""
    from ..common import shrink_candidates as generic

    if sc.get("kind") == "long":
        import copy

        for c in generic(dict(sc, grammar=None)):
            c = copy.deepcopy(c)
            c["grammar"] = sc["grammar"]
            yield c
    else:
        yield from generic(sc)
