"""C01 — the Boolean LM's next-token mask is exactly the set of viable
continuations, for both back-ends, whatever the rule order / naming / hash
seed / set orders / tie-breaks."""
from .. import chaos, gen, ref
from ..common import Outcome, apply_schedule, draw_schedule, guarded
from ..core import digest, rng_for

ID = "C01"
RULE = ("one run = one swarm-generated grammar (Boolean weights, or float weights incl. zero/negative = false) "
        "presented under 2-4 schedules (rule permutation, renaming, ChaosSet/ChaosHeap seeds, counter start) "
        "to BoolCFGLM(alg=earley) and BoolCFGLM(alg=cky); every context over V+EOS up to length 3 plus viable "
        "walks and corruptions, queried in a seeded shuffled order on one shared object; mask compared with "
        "an independent Earley recogniser on the productive sub-grammar, plus membership through the chain rule "
        "lm(x+EOS) > 0; a third of the runs first build another vocabulary's LM in the same process; non-trivial = language non-empty; "
        "distinct = distinct (grammar, schedule) digests")
COMPONENTS = {
    "real": ["BoolCFGLM, add_EOS, map_values, prefix_grammar (CFG @ prefix transducer), Earley, CKYLM / "
             "IncrementalCKY, cnf pipeline"],
    "stub": ["set/frozenset/LocatorMaxHeap replaced by seeded ChaosSet/ChaosFrozenSet/ChaosHeap in the share of "
             "schedules with the seam on"],
}
ASSUMPTIONS = [
    "reference: textbook Earley recogniser restricted to productive rules (valid-prefix property), validated against bounded enumeration in the self-test",
    "grammar symbols never collide with the library's fresh names (prefix@n) or EOS",
]


def generate(rng, tier):
    signed = rng.random() < 0.3
    ab = gen.grammar(rng, "bool", tier)
    if signed:
        ab["mode"] = "float"
        pool = [0.5, 2.0, 1.0, 1e-300, -1.0, -0.25, 0.0]
        ab["rules"] = [[rng.choice(pool), h, b] for _, h, b in ab["rules"]]
    K = rng.choice([2, 3]) if tier == "quick" else rng.choice([3, 4])
    scheds = [draw_schedule(rng, ab, gen, identity=(i == 0 and rng.random() < 0.4)) for i in range(K)]
    if signed:
        # merging duplicate rules adds their weights: (+w) + (-w') is not the
        # Boolean sum of (w>0) and (w'>0), so it is not a presentation of the
        # same grammar under the x>0 reading
        for s in scheds:
            s["pres"]["merge"] = False
    V = ab["V"]
    L = 3 if len(V) <= 2 else 2
    if tier != "quick":
        L += 1 if len(V) <= 2 else 0
    ctxs = [c for c in gen.all_strings(V + [gen.EOS], L)]
    if len(ctxs) > 90:
        keep = [c for c in ctxs if len(c) <= 1]
        rest = [c for c in ctxs if len(c) > 1]
        rng.shuffle(rest)
        ctxs = keep + rest[: 90 - len(keep)]
    seen = {tuple(c) for c in ctxs}
    pos = dict(ab, rules=[r for r in ab["rules"] if r[0] is True or (r[0] is not True and r[0] > 0)])
    for _ in range(6 if tier == "quick" else 12):
        s = gen.sample_member(rng, pos, max_len=10)
        if s is None:
            break
        for k in range(len(s) + 1):
            for c in (s[:k], s[:k] + [rng.choice(V)], s[:k] + [gen.EOS]):
                if tuple(c) not in seen and len(c) <= 10:
                    seen.add(tuple(c))
                    ctxs.append(c)
    if len(ctxs) > 160:
        ctxs = ctxs[:160]
    return {"property": ID, "grammar": ab, "contexts": ctxs, "schedules": scheds,
            "query_order_seed": rng.getrandbits(32), "algs": ["earley", "cky"],
            "prelude": rng.choice([None, None, 0, 1, 2, 3])}


def expected_mask(ab, cache, ctx):
    ctx = tuple(ctx)
    if ctx in cache:
        return cache[ctx]
    rules = [(1, h, tuple(b)) for w, h, b in ab["rules"] if (w is True or (w is not False and w > 0))]
    V = set(ab["V"])
    if gen.EOS in ctx or any(t not in V for t in ctx):
        m = set()
    else:
        m = {a for a in ab["V"] if ref.ref_viable(rules, V, ab["S"], ctx + (a,))}
        if ref.ref_recognise(rules, V, ab["S"], ctx):
            m.add(gen.EOS)
    cache[ctx] = m
    return m


def execute(sc):
    from genlm.grammar.cfglm import BoolCFGLM
    from ..modes import Mode

    out = Outcome()
    ab = sc["grammar"]
    mode = Mode(ab["mode"])
    cache = {}
    out.nontrivial = not gen.trivial(dict(ab, rules=[r for r in ab["rules"]
                                                      if r[0] is True or (r[0] is not False and r[0] > 0)]))
    canon = gen.canon(ab)
    out.sig = []
    if sc.get("prelude") is not None:
        try:
            gen.prelude(int(sc["prelude"]))
            out.probe("prelude_other_vocabulary")
        except Exception:
            out.probe("prelude_raised")
    for si, s in enumerate(sc["schedules"]):
        apply_schedule(s)
        chaos.note_event(f"schedule {si}")
        out.sig.append(digest([canon, s]))
        ok, built = guarded(out, "build", lambda: gen.build_cfg(ab, s["pres"], mode))
        if not ok:
            continue
        cfg, tmap = built
        inv = {v: k for k, v in tmap.items()}
        for alg in sc.get("algs", ["earley", "cky"]):
            comp = f"boollm_{alg}"
            ok, lm = guarded(out, comp, lambda: BoolCFGLM(cfg, alg=alg), sig={"phase": "construct", "alg": alg})
            if not ok:
                continue
            order = list(range(len(sc["contexts"])))
            rng_for(sc.get("query_order_seed", 0), si, alg).shuffle(order)
            for ci in order:
                ctx = sc["contexts"][ci]
                want = expected_mask(ab, cache, ctx)
                cctx = tuple(tmap.get(a, a) for a in ctx)
                ok, p = guarded(out, comp, lambda: lm.p_next(cctx), sig={"phase": "query", "alg": alg})
                out.evals += 1
                out.steps += 1
                if not ok:
                    continue
                got = {inv.get(t, t) for t, v in p.items() if v != 0}
                if want:
                    out.probe("viable_contexts")
                else:
                    out.probe("nonviable_contexts")
                if got != want:
                    out.violation(f"mask:{alg}", sig={"alg": alg, "ctx_viable": bool(want)},
                                  ctx=list(ctx), got=sorted(map(str, got)), want=sorted(map(str, want)),
                                  missing=sorted(map(str, want - got)), extra=sorted(map(str, got - want)),
                                  schedule=si)
                chaos.note_event(f"{alg} {ctx} {sorted(map(str, got))}")
            # membership through the chain rule: lm(x + EOS) > 0 iff x is a string of the grammar
            rules_pos = [(1, h, tuple(b)) for w, h, b in ab["rules"] if (w is True or (w is not False and w > 0))]
            for ci in order[:15]:
                ctx = sc["contexts"][ci]
                if gen.EOS in ctx:
                    continue
                cctx = tuple(tmap.get(a, a) for a in ctx)
                want_in = ref.ref_recognise(rules_pos, set(ab["V"]), ab["S"], tuple(ctx))
                ok, v = guarded(out, comp, lambda: lm(cctx + (gen.EOS,)), sig={"phase": "call", "alg": alg})
                out.evals += 1
                if ok and (float(v) > 0) != want_in:
                    out.violation(f"member:{alg}", sig={"alg": alg}, string=list(ctx), got=repr(v), want=want_in, schedule=si)
    out.probes.update({f"chaos_{k}": v for k, v in chaos.stats().items()})
    out.sample = {"grammar": ab["rules"], "S": ab["S"], "mode": ab["mode"], "n_contexts": len(sc["contexts"]),
                  "n_schedules": len(sc["schedules"]), "features": ab.get("features"),
                  "example_masks": [[list(c), sorted(cache[tuple(c)])] for c in sc["contexts"][:6] if tuple(c) in cache]}
    return out
