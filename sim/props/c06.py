"""C06 — normal-form transformations preserve the weighted language.  The
transformed grammar is evaluated by the *reference* evaluator (not by the
library's parsers), so this check depends on the transformation alone."""
from .. import chaos, gen, ref
from ..common import Outcome, apply_schedule, draw_schedule, guarded
from ..core import digest, rng_for
from ..modes import Mode

ID = "C06"
RULE = ("one run = one swarm-generated grammar in one semiring mode (Boolean, MaxTimes, MaxPlus, Poly = free "
        "commutative semiring with one indeterminate per rule, Float, Real, Log) under 2-5 schedules; each schedule "
        "applies 4-8 transformations (trim, cotrim, binarize, separate_start, separate_terminals, nullaryremove "
        "with all flag combinations, unaryremove, unarycycleremove +/- trim, cnf, rename, renumber, unfold at a "
        "seeded valid position, and two-step compositions); weight of every string (all strings up to length 3-4 "
        "plus sampled members) of T(G) under the reference evaluator equals that of G; non-trivial = language "
        "non-empty; distinct = distinct (grammar, schedule, transformation list) digests")
COMPONENTS = {
    "real": ["CFG.trim/cotrim/binarize/separate_start/separate_terminals/nullaryremove/unaryremove/"
             "unarycycleremove/cnf/rename/renumber/unfold, WeightedGraph closure / SCC code, CFG.agenda (null weights)"],
    "stub": ["set/frozenset -> ChaosSet/ChaosFrozenSet in the share of schedules with the seam on",
             "library parsers are NOT used: both sides are evaluated by sim.ref.Inside"],
}
ASSUMPTIONS = [
    "reference evaluator sim.ref.Inside (layered Kleene iteration) validated against the global Kleene version and brute-force derivation enumeration in the self-test",
    "float modes: generated grammars converge (checked by iteration at generation time); tolerance 1e-9 + 1e-6 relative",
]
MODE_WEIGHTS = [("bool", 3), ("poly", 4), ("maxtimes", 3), ("maxplus", 2), ("float", 4), ("real", 2), ("log", 2)]
TRANSFORMS = ["trim", "cotrim", "binarize", "separate_start", "separate_terminals", "nullaryremove",
              "unaryremove", "unarycycleremove", "cnf", "rename", "renumber", "unfold", "compose2"]
SIMPLE = ["trim", "cotrim", "binarize", "separate_start", "separate_terminals", "unaryremove", "renumber"]


def generate(rng, tier):
    from .c02 import pick_mode

    mode = pick_mode(rng, MODE_WEIGHTS)
    ab = gen.grammar(rng, mode, tier)
    K = rng.choice([2, 3]) if tier == "quick" else rng.choice([3, 4, 5])
    scheds = [draw_schedule(rng, ab, gen, identity=(i == 0 and rng.random() < 0.4), p_heap=0.0) for i in range(K)]
    nT = rng.randint(4, 6) if tier == "quick" else rng.randint(6, 8)
    ts = []
    for _ in range(nT):
        t = rng.choice(TRANSFORMS)
        arg = rng.getrandbits(16)
        if t == "compose2":
            ts.append([t, [rng.choice(SIMPLE + ["nullaryremove", "unarycycleremove"]), rng.choice(SIMPLE), arg]])
        else:
            ts.append([t, [arg]])
    cap = 28 if tier == "quick" else 60
    strs = gen.cap_ambiguity(ab, gen.strings(rng, ab, extra=3 if tier == "quick" else 6, cap=cap))
    return {"property": ID, "grammar": ab, "strings": strs, "schedules": scheds, "transforms": ts}


def apply(cfg, t, args):
    a = args[-1] if args else 0
    if t == "nullaryremove":
        return cfg.nullaryremove(binarize=bool(a & 1), trim=bool(a & 2)), f"binarize={bool(a & 1)},trim={bool(a & 2)}"
    if t == "unarycycleremove":
        return cfg.unarycycleremove(trim=bool(a & 1)), f"trim={bool(a & 1)}"
    if t == "cnf":
        return cfg.cnf, ""
    if t == "rename":
        if a & 1:
            return cfg.rename(lambda x: ("r", x)), "tuple"
        return cfg.rename(lambda x: f"<{x!r}>"), "repr"
    if t == "unfold":
        pos = [(i, k) for i, r in enumerate(cfg.rules) for k, y in enumerate(r.body) if cfg.is_nonterminal(y)]
        if not pos:
            return None, "no-position"
        i, k = pos[rng_for(a, "unfold").randrange(len(pos))]
        return cfg.unfold(i, k), f"i={i},k={k}"
    if t == "compose2":
        g1, d1 = apply(cfg, args[0], [a])
        if g1 is None:
            return None, d1
        g2, d2 = apply(g1, args[1], [a >> 2])
        return g2, f"{args[0]}({d1});{args[1]}({d2})"
    return getattr(cfg, t)(), ""


def execute(sc):
    out = Outcome()
    ab = sc["grammar"]
    mode = Mode(ab["mode"])
    rules, V, S = gen._raw(ab, mode)
    null = ref.ref_null(rules, V, mode.alg)
    refval = {}

    def want(x):
        k = tuple(x)
        if k not in refval:
            refval[k] = ref.ref_inside(rules, V, S, k, mode.alg, null=null)
        return refval[k]

    strs = [tuple(x) for x in sc["strings"]]
    out.nontrivial = not gen.trivial(ab)
    canon = gen.canon(ab)
    out.sig = []
    for si, s in enumerate(sc["schedules"]):
        apply_schedule(s)
        chaos.note_event(f"schedule {si}")
        out.sig.append(digest([canon, s, sc["transforms"]]))
        ok, built = guarded(out, "build", lambda: gen.build_cfg(ab, s["pres"], mode))
        if not ok:
            continue
        cfg, tmap = built
        for t, args in sc["transforms"]:
            name = t if t != "compose2" else f"compose2"
            sig = {"transform": t, "mode": mode.name, "inner": args[:2] if t == "compose2" else None}
            ok, res = guarded(out, f"T:{name}", lambda: apply(cfg, t, args), sig=sig)
            out.steps += 1
            if not ok:
                continue
            g2, desc = res
            if g2 is None:
                continue
            out.probe(f"applied_{t}")
            raw2 = gen.cfg_to_raw(g2)
            try:
                null2 = ref.ref_null(raw2[0], raw2[1], mode.alg)
            except ref.RefDiverged:
                out.violation(f"lang:{name}", sig=dict(sig, kind="transformed grammar's null weights diverge"),
                              args=desc, schedule=si)
                continue
            for x in strs:
                cx = tuple(tmap[a] for a in x)
                w = want(x)
                try:
                    got = ref.ref_inside(raw2[0], raw2[1], raw2[2], cx, mode.alg, null=null2)
                except ref.RefDiverged:
                    out.violation(f"lang:{name}", sig=dict(sig, kind="diverges"), args=desc, string=list(x),
                                  want=mode.show(w), schedule=si)
                    break
                out.evals += 1
                if not mode.close(got, w):
                    out.violation(f"lang:{name}", sig=sig, args=desc, string=list(x), got=mode.show(got),
                                  want=mode.show(w), schedule=si, n_rules_out=len(g2.rules))
                    break
            chaos.note_event(f"{t} {desc} {len(g2.rules)}")
    out.probes.update({f"chaos_{k}": v for k, v in chaos.stats().items()})
    out.sample = {"grammar": ab["rules"], "S": ab["S"], "mode": ab["mode"], "transforms": sc["transforms"],
                  "n_strings": len(strs), "features": ab.get("features")}
    return out
