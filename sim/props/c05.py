"""C05 — incremental parsing is history-independent; queries are pure.

Clients = particles extending sibling / nested contexts on ONE shared parser or
LM object; storage = its chart cache (and the grammar's cached properties);
faults = cache eviction at arbitrary points, aborted queries (an exception
raised inside the query at the n-th executed line), fresh-name counter jumps,
long contexts built warm and re-queried cold.  Reference model = the
stateless version of the system: a fresh object, built from an independent
copy of the rule list, asked the one query.  Checked after every operation:
result == model, and the user's grammar (rules, V, S) is unchanged.
"""
import math
import sys

from .. import chaos, gen, ref
from ..common import Outcome, SimInterrupt, libcall, set_counter
from ..core import REPO, ckey, digest, short
from ..modes import Mode

ID = "C05"
RULE = ("one run = one shared object (Earley / rescaled Earley / IncrementalCKY / EarleyLM / rescaled EarleyLM / "
        "CKYLM / BoolCFGLM earley+cky / the CFG object itself, or 2-3 of these built from ONE grammar object) on a "
        "swarm-generated grammar (optionally already carrying library-generated names: binarize / "
        "separate_terminals / separate_start / cnf applied first), driven by a seeded history of 5-40 operations: "
        "extend, fork sibling, rewind, repeat, all query kinds (incl. p_next_async stepped by the harness, "
        "p_next_seq, transformations and LM construction on the grammar object), evict, abort at a measured "
        "fraction of the query's length, fresh-name counter jump, unrelated library activity in the same process "
        "('noise'), coarse treesum, long-cold; every query result is compared with a fresh object built in a "
        "separate pristine process; the user's grammar (rules, V, S) is snapshot-compared after every operation; "
        "non-trivial = the grammar generates at least one string and the history has >= 3 queries; distinct = "
        "distinct (grammar, history) digests")
COMPONENTS = {
    "real": ["genlm.grammar parsers, LMs, CFG transformations, prefix-grammar composition (all real code)",
             "arsenal LocatorMaxHeap and builtin set/frozenset in the share of runs with the seam off"],
    "stub": ["set/frozenset -> ChaosSet/ChaosFrozenSet and LocatorMaxHeap -> ChaosHeap in the share of runs "
             "with the seam on (see scheduler_decisions)"],
}
ASSUMPTIONS = [
    "single-threaded use: histories are sequential interleavings of whole queries (the library makes no thread-safety claim)",
    "an aborted query may fail in any way; only later queries are checked",
    "reference = a fresh object of the same class built from a copy of the rule list (history independence, not absolute correctness; C02/C04 check values)",
    "float results compared with |a-b| <= 1e-9 + 1e-6*max(|a|,|b|); exact modes (Boolean, Poly) with ==",
]

KINDS = {
    # kind: (modes, query kinds)
    "earley": (["bool", "poly", "float", "maxtimes", "real", "log"], ["call", "ntw", "call"]),
    "earley_prefix": (["bool", "float", "maxtimes"], ["ntw", "ntw", "call"]),
    "rescaled": (["float"], ["call", "logp", "ntw"]),
    "rescaled_prefix": (["float"], ["ntw", "logp", "call"]),
    "icky": (["bool", "poly", "float", "maxtimes", "log"], ["call", "p_next"]),
    "earleylm": (["float"], ["p_next", "p_next", "p_next_async", "prob", "p_next_seq"]),
    "rescaledlm": (["float"], ["p_next", "p_next", "p_next_async", "prob", "p_next_seq"]),
    "ckylm": (["float"], ["p_next", "p_next", "p_next_async", "prob", "p_next_seq"]),
    "boollm_earley": (["bool", "float"], ["p_next", "p_next", "p_next_async", "prob", "p_next_seq"]),
    "boollm_cky": (["bool", "float"], ["p_next", "p_next", "p_next_async", "prob", "p_next_seq"]),
    "cfg": (["bool", "float", "float", "maxtimes", "real", "log"],
            ["cfgcall", "prefix_weight", "treesum", "materialize", "derivative", "transform", "build_lm",
             "build_lm", "prefix_weight"]),
}
KIND_WEIGHTS = [("earley", 3), ("earley_prefix", 2), ("rescaled", 2), ("rescaled_prefix", 1), ("icky", 2),
                ("earleylm", 3), ("rescaledlm", 3), ("ckylm", 2), ("boollm_earley", 3), ("boollm_cky", 2),
                ("cfg", 4)]
LM_KINDS = {"earleylm", "rescaledlm", "ckylm", "boollm_earley", "boollm_cky"}
TRANSFORMS = ["trim", "cotrim", "cnf", "binarize", "separate_start", "separate_terminals", "nullaryremove",
              "unaryremove", "unarycycleremove", "renumber", "add_EOS", "locally_normalize", "prefix_grammar",
              "truncate_length", "to_bytes", "getitem", "null_weight", "has_unary_cycle", "expected_length"]
LMS = ["EarleyLM", "RescaledEarleyLM", "CKYLM", "BoolCFGLM", "BoolCFGLM_cky", "Earley", "IncrementalCKY"]
OOV = "<oov>"


# ---------------------------------------------------------------------------
# generation


def _viable_tokens(ab, ctx):
    rules = [(1, h, tuple(b)) for _, h, b in ab["rules"]]
    V = set(ab["V"])
    return [a for a in ab["V"] if ref.ref_viable(rules, V, ab["S"], tuple(ctx) + (a,))]


def generate(rng, tier):
    kind = rng.choice([k for k, w in KIND_WEIGHTS for _ in range(w)])
    modes, qkinds = KINDS[kind]
    if kind == "cfg":
        qkinds = list(qkinds)
    mode = rng.choice(modes)
    long_cold = rng.random() < (0.06 if tier == "quick" else 0.08) and kind in (
        "earley_prefix", "rescaled", "rescaled_prefix", "earleylm", "rescaledlm", "boollm_earley", "earley")
    if long_cold:
        return _generate_long(rng, tier, kind)
    multi = None
    if rng.random() < 0.15:
        # several objects built from ONE user grammar object (shared grammar-level
        # caches: cached_property cnf / prefix_grammar / rhs, _trim_cache)
        pool = ["earley", "earley_prefix", "rescaled", "icky", "earleylm", "rescaledlm", "ckylm",
                "boollm_earley", "boollm_cky", "cfg"]
        multi = rng.sample(pool, rng.choice([2, 2, 3]))
        kind = "multi:" + "+".join(multi)
        mode = "float"
    ab = gen.grammar(rng, mode, tier, max_rules=8)
    if kind in ("earleylm", "rescaledlm", "ckylm") and rng.random() < 0.5:
        ab["normalize"] = True
    from ..common import draw_schedule

    sched = draw_schedule(rng, ab, gen, identity=rng.random() < 0.15)
    faults = {"evict": rng.random() < 0.7, "abort": rng.random() < 0.35, "counter": rng.random() < 0.3,
              "noise": rng.random() < 0.35}
    # the user's grammar may already carry library-generated fresh names
    pre = rng.choice([None, None, None, "binarize", "separate_terminals", "separate_start", "cnf"])
    has_cfg = kind == "cfg" or (multi is not None and "cfg" in multi)
    if has_cfg:
        # the grammar object itself is queried: name generation happens lazily,
        # after whatever else ran in the process; stress the fresh-name counter
        faults["noise"] = rng.random() < 0.7
        if rng.random() < 0.6:
            pre = rng.choice(["binarize", "separate_terminals", "separate_start", "separate_terminals"])
        if rng.random() < 0.6:
            sched["gen_nt"] = 0
    if mode == "poly" and pre == "cnf":
        pre = "binarize"
    is_lm = kind in LM_KINDS or (multi is not None and any(k in LM_KINDS for k in multi))
    T = rng.randint(5, 24 if tier == "quick" else 40)
    P = rng.choice([1, 2, 2, 3, 4])
    particles = [[]]
    ops = []
    last_query = None
    maxlen = 6

    def next_token(ctx):
        r = rng.random()
        if r < 0.04:
            return OOV
        if is_lm and r < 0.10:
            return gen.EOS
        if r < 0.8:
            v = _viable_tokens(ab, [t for t in ctx if t in ab["V"]]) if all(t in ab["V"] for t in ctx) else []
            if v:
                return rng.choice(v)
        return rng.choice(ab["V"])

    def query(ctx, q=None):
        nonlocal last_query
        j = None
        if multi is not None:
            j = rng.randrange(len(multi))
            q = rng.choice(KINDS[multi[j]][1])
        q = q or rng.choice(qkinds)
        op = {"op": "query", "q": q, "ctx": list(ctx), "order_seed": rng.getrandbits(32) | 1}
        if j is not None:
            op["obj"] = j
        if q == "p_next_seq":
            ext = []
            c = list(ctx)
            for _ in range(rng.choice([1, 2, 3])):
                t = next_token(c)
                ext.append(t)
                c.append(t)
            op["ext"] = ext
        if q == "materialize":
            op["n"] = rng.choice([0, 1, 2, 3])
        if q == "derivative":
            op["a"] = rng.choice(ab["V"])
        if q == "treesum":
            op["kw"] = rng.choice([{}, {}, {"maxiter": 3}, {"tol": 0.2}, {"maxiter": 1}])
        if q == "transform":
            op["t"] = rng.choice(TRANSFORMS)
            op["args"] = [rng.randrange(4)]
        if q == "build_lm":
            # models that can be built for this semiring (the others raise on
            # both sides, which tests nothing)
            ok_lms = LMS if mode == "float" else ["BoolCFGLM", "BoolCFGLM_cky", "Earley", "IncrementalCKY",
                                                   "BoolCFGLM", "Earley"]
            op["lm"] = rng.choice(ok_lms)
        if faults["abort"] and rng.random() < 0.25:
            # abort position: a fraction of the query's own length (measured at
            # execution time in a forked copy), or an absolute small count
            if rng.random() < 0.75:
                op["abort"] = {"frac": round(rng.random(), 4)}
            else:
                op["abort"] = int(math.exp(rng.uniform(0, math.log(4000))))
        last_query = op
        ops.append(op)

    if faults["noise"] and rng.random() < 0.5:
        ops.append({"op": "noise", "what": rng.randrange(6)})
    for _ in range(T):
        r = rng.random()
        p = rng.randrange(len(particles))
        ctx = particles[p]
        if r < 0.40 and len(ctx) < maxlen:
            ctx.append(next_token(ctx))
            query(ctx)
        elif r < 0.52 and len(particles) < P and ctx:
            # fork a sibling of the particle's last step
            sib = ctx[:-1]
            alts = [a for a in ab["V"] if a != ctx[-1]]
            sib.append(rng.choice(alts) if alts and rng.random() < 0.8 else next_token(sib))
            particles.append(sib)
            query(sib)
        elif r < 0.64 and ctx:
            k = rng.randrange(len(ctx))
            particles[p] = ctx[:k]
            if faults["evict"] and rng.random() < 0.3:
                ops.append({"op": "evict"})
            query(particles[p])
        elif r < 0.72 and last_query is not None:
            ops.append(dict(last_query, order_seed=rng.getrandbits(32) | 1))
        elif r < 0.82 and faults["evict"]:
            ops.append({"op": "evict"})
        elif r < 0.86 and faults["counter"]:
            ops.append({"op": "counter", "k": rng.choice([1, 5, 1000, rng.getrandbits(24)])})
        elif r < 0.90 and faults["noise"]:
            ops.append({"op": "noise", "what": rng.randrange(8)})
        else:
            query(ctx)
    return {"property": ID, "kind": kind, "grammar": ab, "schedule": sched, "ops": ops, "pre": pre}


def _generate_long(rng, tier, kind):
    """Fault schedule 'long-cold': build a long context warm, evict, query it
    cold (and the reverse) under the interpreter's default recursion limit."""
    from ..common import draw_schedule

    name = rng.choice(["anbn", "pal", "dyck", "rlin", "llin", "unary"])
    ab = gen.named(name)
    if kind in ("boollm_earley", "earley", "earley_prefix") and rng.random() < 0.5:
        ab = dict(ab, mode="bool", rules=[[True, h, b] for _, h, b in ab["rules"]])
    n = rng.choice([120, 250, 400, 520, 600, 700]) if tier == "quick" else rng.choice([200, 400, 520, 700, 900])
    x = gen.named_long_string(name, rng, n)
    if kind not in LM_KINDS and kind not in ("earley_prefix", "rescaled_prefix"):
        ctx = x
    else:
        ctx = x[: max(2, len(x) - rng.choice([0, 1, len(x) // 2]))]
    sched = draw_schedule(rng, ab, gen, identity=rng.random() < 0.3)
    q = {"earley": "call", "earley_prefix": "ntw", "rescaled": rng.choice(["call", "logp"]),
         "rescaled_prefix": rng.choice(["ntw", "logp"])}.get(kind, "p_next")
    step = rng.choice([20, 50, 100])
    ops = []
    order = rng.choice(["warm-evict-cold", "cold-first", "warm-only", "warm-evict-cold"])

    def Q(c):
        return {"op": "query", "q": q, "ctx": list(c), "order_seed": rng.getrandbits(32) | 1}

    if order in ("warm-evict-cold", "warm-only"):
        for k in range(step, len(ctx), step):
            ops.append({"op": "warm", "ctx": list(ctx[:k])})
        ops.append(Q(ctx))
        if order == "warm-evict-cold":
            ops.append({"op": "evict"})
            ops.append(Q(ctx))
            ops.append(Q(ctx[: len(ctx) // 2]))
    else:
        ops.append(Q(ctx))
        ops.append({"op": "evict"})
        for k in range(step, len(ctx), step):
            ops.append({"op": "warm", "ctx": list(ctx[:k])})
        ops.append(Q(ctx))
    return {"property": ID, "kind": kind, "grammar": ab, "schedule": sched, "ops": ops, "long": name}


# ---------------------------------------------------------------------------
# execution


class _Multi:
    def __init__(self, kinds, objs):
        self.kinds, self.objs = kinds, objs

    def clear_cache(self):
        for o in self.objs:
            if hasattr(o, "clear_cache"):
                o.clear_cache()


def _build(kind, cfg):
    """The shared object of a run / the fresh object of the reference."""
    if kind.startswith("multi:"):
        kinds = kind[len("multi:"):].split("+")
        return _Multi(kinds, [_build(k, cfg) for k in kinds])
    if kind == "earley":
        from genlm.grammar.parse.earley import Earley
        return Earley(cfg)
    if kind == "earley_prefix":
        from genlm.grammar.parse.earley import Earley
        return Earley(cfg.prefix_grammar)
    if kind == "rescaled":
        from genlm.grammar.parse.earley_rescaled import Earley
        return Earley(cfg)
    if kind == "rescaled_prefix":
        from genlm.grammar.parse.earley_rescaled import Earley
        return Earley(cfg.prefix_grammar)
    if kind == "icky":
        from genlm.grammar.parse.cky import IncrementalCKY
        return IncrementalCKY(cfg.cnf)
    if kind == "earleylm":
        from genlm.grammar.parse.earley import EarleyLM
        return EarleyLM(cfg)
    if kind == "rescaledlm":
        from genlm.grammar.parse.earley_rescaled import EarleyLM
        return EarleyLM(cfg)
    if kind == "ckylm":
        from genlm.grammar.parse.cky import CKYLM
        return CKYLM(cfg)
    if kind == "boollm_earley":
        from genlm.grammar.cfglm import BoolCFGLM
        return BoolCFGLM(cfg, alg="earley")
    if kind == "boollm_cky":
        from genlm.grammar.cfglm import BoolCFGLM
        return BoolCFGLM(cfg, alg="cky")
    if kind == "cfg":
        return cfg
    raise ValueError(kind)


def _user_cfg(ab, pres, mode, pre=None):
    cfg, tmap = gen.build_cfg(ab, pres, mode)
    if ab.get("normalize"):
        from genlm.grammar.cfglm import locally_normalize
        cfg = locally_normalize(cfg)
    if pre == "cnf":
        cfg = cfg.cnf
    elif pre:
        cfg = getattr(cfg, pre)()
    return cfg, tmap


def _noise(what):
    """Unrelated library activity in the same process (other grammars being
    parsed from text, other models being built): results are ignored, only its
    effect on later answers of the object under test matters."""
    from genlm.grammar import CFG, Float
    from genlm.grammar.cfglm import BoolCFGLM
    from genlm.grammar.parse.cky import CKYLM
    from genlm.grammar.parse.earley import EarleyLM

    text = "0.4: S -> a S b\n0.3: S -> S S\n0.3: S -> c"
    if what == 0:
        CFG.from_string(text, Float).cnf
    elif what == 1:
        EarleyLM.from_string("0.5: S -> a S\n0.5: S -> b").p_next(("a",))
    elif what == 2:
        g = CFG.from_string(text, Float)
        g.prefix_grammar
        g.separate_terminals().binarize().separate_start()
    elif what == 3:
        BoolCFGLM.from_string("1: S -> a S a\n1: S -> b").p_next(("a",))
    elif what == 4:
        CKYLM.from_string("0.5: S -> a S\n0.5: S -> b").p_next(("a",))
    elif what == 6:
        CFG.from_string(text, Float)  # parsed, not even used
    elif what == 7:
        CFG.from_string("1: S -> a S b c\n1: S -> d", Float).binarize()
    else:
        g = CFG.from_string("1: S -> A B C D\n1: A -> a\n1: B -> b\n1: C ->\n1: D -> d\n1: S -> S S S", Float)
        g(("a", "b", "d"))


def _drive(coro):
    """Step a coroutine to completion from the harness's own loop."""
    try:
        while True:
            coro.send(None)
    except StopIteration as e:
        return e.value


def _transform(cfg, t, args, tr):
    from genlm.grammar.cfglm import add_EOS, locally_normalize
    k = args[0] if args else 0
    if t == "add_EOS":
        return add_EOS(cfg)
    if t == "locally_normalize":
        return locally_normalize(cfg)
    if t in ("cnf", "prefix_grammar"):
        return getattr(cfg, t)
    if t == "truncate_length":
        return cfg.truncate_length(k)
    if t == "getitem":
        return cfg[cfg.S]
    if t == "expected_length":
        return cfg.expected_length
    if t == "nullaryremove":
        return cfg.nullaryremove(binarize=bool(k % 2), trim=bool(k // 2 % 2))
    if t == "unarycycleremove":
        return cfg.unarycycleremove(trim=bool(k % 2))
    return getattr(cfg, t)()


_USER_SYMBOLS = set()


def _do_query(kind, obj, op, tr, user_cfg):
    """Perform one query on an object; returns the raw library result."""
    if isinstance(obj, _Multi):
        j = op.get("obj", 0)
        return _do_query(obj.kinds[j], obj.objs[j], op, tr, user_cfg)
    q = op["q"]
    ctx = tr(op["ctx"])
    if kind == "cfg":
        cfg = obj
        if q == "cfgcall":
            return cfg(ctx)
        if q == "prefix_weight":
            return cfg.prefix_weight(ctx)
        if q == "treesum":
            return cfg.treesum(**(op.get("kw") or {}))
        if q == "materialize":
            return cfg.materialize(op["n"])
        if q == "derivative":
            return cfg.derivative(tr([op["a"]])[0])(ctx)
        if q == "transform":
            g = _transform(cfg, op["t"], op.get("args"), tr)
            if isinstance(g, dict):
                # a chart keyed by symbols (null_weight): library-generated fresh
                # names legitimately depend on the counter; compare the user's symbols
                return {k: v for k, v in g.items() if k in _USER_SYMBOLS}
            if hasattr(g, "rules"):
                xs = ctx if op["t"] not in ("to_bytes", "add_EOS") else ()
                try:
                    val = g(xs)
                except Exception as e:  # the probe string may be outside the new alphabet
                    val = ("exc", type(e).__name__)
                return ("grammar", len(g.rules), val)
            return g
        if q == "build_lm":
            from genlm.grammar.cfglm import BoolCFGLM
            from genlm.grammar.parse.cky import CKYLM, IncrementalCKY
            from genlm.grammar.parse.earley import Earley, EarleyLM
            from genlm.grammar.parse.earley_rescaled import EarleyLM as REarleyLM
            name = op["lm"]
            if name == "EarleyLM":
                return EarleyLM(cfg).p_next(ctx)
            if name == "RescaledEarleyLM":
                return REarleyLM(cfg).p_next(ctx)
            if name == "CKYLM":
                return CKYLM(cfg).p_next(ctx)
            if name == "BoolCFGLM":
                return BoolCFGLM(cfg).p_next(ctx)
            if name == "BoolCFGLM_cky":
                return BoolCFGLM(cfg, alg="cky").p_next(ctx)
            if name == "Earley":
                return Earley(cfg)(ctx)
            if name == "IncrementalCKY":
                return IncrementalCKY(cfg.cnf)(ctx)
        raise ValueError(q)
    if q == "call":
        return obj(ctx)
    if q == "logp":
        return obj.logp(ctx)
    if q == "ntw":
        return obj.next_token_weights(obj.chart(ctx))
    if q == "p_next":
        return obj.p_next(ctx)
    if q == "p_next_async":
        return _drive(obj.p_next_async(ctx))
    if q == "prob":
        return obj(ctx + (obj.eos,))
    if q == "p_next_seq":
        return obj.p_next_seq(ctx, tr(op["ext"]))
    raise ValueError(q)


def _canon(res, mode):
    """Semantic form of a result: a chart is a function with default zero."""
    if isinstance(res, dict):
        out = {}
        for k, v in res.items():
            if not _is_zero(v, mode):
                out[k] = v
        return out
    if isinstance(res, tuple) and res and res[0] == "grammar":
        return ("grammar", res[1], _canon(res[2], mode))
    return res


def _freeze(res, mode):
    """Immutable picture of a result as the caller holds it (zero entries of a
    chart are not part of its meaning: look-ups may materialise them)."""
    c = _canon(res, mode)
    if isinstance(c, dict):
        return tuple(sorted((repr(k), repr(v)) for k, v in c.items()))
    return repr(c)


def _is_zero(v, mode):
    try:
        if v == 0 and not hasattr(v, "score") and not hasattr(v, "t"):
            return True
    except Exception:
        pass
    try:
        return v == mode.R.zero
    except Exception:
        return False


def _num_same(a, b, mode):
    if type(a) is tuple and type(b) is tuple:
        return len(a) == len(b) and all(_num_same(x, y, mode) for x, y in zip(a, b))
    try:
        if a == b:
            return True
    except Exception:
        return False
    sa, sb = getattr(a, "score", a), getattr(b, "score", b)
    if isinstance(sa, tuple) or isinstance(sb, tuple):
        return isinstance(sa, tuple) and isinstance(sb, tuple) and _num_same(sa, sb, mode)
    try:
        fa, fb = float(sa), float(sb)
    except Exception:
        return False
    if math.isnan(fa) and math.isnan(fb):
        return True
    if math.isinf(fa) or math.isinf(fb) or math.isnan(fa) or math.isnan(fb):
        return False
    if mode.exact:
        return False
    return abs(fa - fb) <= 1e-9 + 1e-6 * max(abs(fa), abs(fb))


def _same(a, b, mode):
    if isinstance(a, dict) or isinstance(b, dict):
        if not (isinstance(a, dict) and isinstance(b, dict)):
            return False
        for k in set(a) | set(b):
            if k not in a or k not in b:
                return False
            if not _num_same(a[k], b[k], mode):
                return False
        return True
    return _num_same(a, b, mode)


def _snapshot(cfg):
    return ([(repr(r.w), r.head, tuple(r.body)) for r in cfg.rules],
            sorted((ckey(v) for v in set.__iter__(cfg.V)) if isinstance(cfg.V, set) else (ckey(v) for v in cfg.V)),
            cfg.S)


class _Abort:
    """Raise SimInterrupt at the n-th line event executed in repository code."""

    def __init__(self, n):
        self.n = n
        self.count = 0
        self.where = None
        self.prefix = REPO.rstrip("/") + "/genlm/"

    def _local(self, frame, event, arg):
        if event == "line":
            self.count += 1
            if self.count == self.n:
                self.where = (frame.f_code.co_name, frame.f_lineno)
                raise SimInterrupt()
        return self._local

    def tracer(self, frame, event, arg):
        if not frame.f_code.co_filename.startswith(self.prefix):
            return None
        return self._local

    def run(self, fn):
        sys.settrace(self.tracer)
        try:
            return "done", fn()
        except SimInterrupt:
            return "aborted", None
        finally:
            sys.settrace(None)


def _count_lines(fn):
    """Length of a query in executed repository lines, measured in a forked
    copy of this process (same scheduler state, so the same path); the copy's
    side effects are discarded with it."""
    import os

    r, w = os.pipe()
    pid = os.fork()
    if pid == 0:
        import signal

        signal.signal(signal.SIGXCPU, signal.SIG_DFL)
        ab = _Abort(10 ** 15)
        try:
            ab.run(fn)
        except BaseException:
            pass
        try:
            os.write(w, str(ab.count).encode())
        finally:
            os._exit(0)
    os.close(w)
    data = b""
    while True:
        chunk = os.read(r, 64)
        if not chunk:
            break
        data += chunk
    os.close(r)
    os.waitpid(pid, 0)
    try:
        return int(data)
    except ValueError:
        return -1


class _RefServer:
    """The stateless model lives in its own process, forked before the shared
    object exists: it never sees the history (nor process-global state that
    the history may have touched).  One fresh object per distinct query."""

    def __init__(self, fn):
        import os
        import pickle

        self._os, self._pickle = os, pickle
        r1, w1 = os.pipe()  # parent -> child
        r2, w2 = os.pipe()  # child -> parent
        pid = os.fork()
        if pid == 0:
            try:
                os.close(w1)
                os.close(r2)
                sys.settrace(None)
                import signal

                signal.signal(signal.SIGXCPU, signal.SIG_DFL)  # never write into the run's result pipe
                while True:
                    req = self._recv(r1)
                    if req is None:
                        break
                    try:
                        res = fn(req)
                    except BaseException as e:  # never let the model die silently
                        res = ("exc", type(e).__name__)
                    try:
                        data = pickle.dumps(res)
                    except Exception:
                        data = pickle.dumps(("unpicklable", repr(res)[:200]))
                    os.write(w2, len(data).to_bytes(8, "big"))
                    off = 0
                    while off < len(data):
                        off += os.write(w2, data[off:off + 65536])
            finally:
                os._exit(0)
        os.close(r1)
        os.close(w2)
        self.pid, self.w, self.r = pid, w1, r2

    def _recv(self, fd):
        os = self._os
        head = b""
        while len(head) < 8:
            c = os.read(fd, 8 - len(head))
            if not c:
                return None
            head += c
        n = int.from_bytes(head, "big")
        buf = b""
        while len(buf) < n:
            c = os.read(fd, min(1 << 20, n - len(buf)))
            if not c:
                return None
            buf += c
        return self._pickle.loads(buf)

    def ask(self, op):
        os = self._os
        data = self._pickle.dumps(op)
        os.write(self.w, len(data).to_bytes(8, "big") + data)
        res = self._recv(self.r)
        if res is None:
            # the model ran out of its CPU budget (or died): no verdict for this run
            raise ref.RefDiverged("reference process died")
        return res

    def close(self):
        os = self._os
        try:
            os.close(self.w)
            os.close(self.r)
            os.waitpid(self.pid, 0)
        except Exception:
            pass


def _show(res, mode):
    if isinstance(res, dict):
        return {str(k): _show(v, mode) for k, v in sorted(res.items(), key=lambda kv: ckey(kv[0]))}
    if isinstance(res, tuple):
        return [_show(x, mode) for x in res]
    if hasattr(res, "score"):
        return repr(res.score)
    return short(repr(res), 80)


def execute(sc):
    out = Outcome()
    ab = sc["grammar"]
    kind = sc["kind"]
    mode = Mode(ab["mode"])
    sched = sc["schedule"]
    pres = sched["pres"]
    from ..common import apply_schedule

    apply_schedule(sched)
    from ..core import dec as _dec
    _USER_SYMBOLS.clear()
    _USER_SYMBOLS.update(_dec(v) for v in pres["nmap"].values())
    out.nontrivial = (not gen.trivial(ab)) and sum(1 for o in sc["ops"] if o["op"] == "query") >= 3
    out.sig = [digest([gen.canon(ab), kind, sc["ops"], sched])]

    def tr_for(tmap):
        def tr(x):
            return tuple(tmap.get(a, a) for a in x)
        return tr

    def _fresh(op):
        chaos.begin(0, epoch=False)
        try:
            cfg2, tmap2 = _user_cfg(ab, pres, mode, sc.get("pre"))
            obj2 = _build(kind, cfg2)
            return ("ok", _canon(_do_query(kind, obj2, op, tr_for(tmap2), cfg2), mode))
        except SimInterrupt:
            raise
        except Exception as e:
            return ("exc", type(e).__name__)

    server = _RefServer(_fresh)
    try:
        return _execute_with_model(sc, out, server, ab, kind, mode, sched, pres, tr_for)
    finally:
        server.close()


def _execute_with_model(sc, out, server, ab, kind, mode, sched, pres, tr_for):
    # the shared object and the user's grammar it was built from
    try:
        with libcall(f"{kind}:build"):
            user_cfg, tmap = _user_cfg(ab, pres, mode, sc.get("pre"))
            tr = tr_for(tmap)
            snap0 = _snapshot(user_cfg)
            sut = _build(kind, user_cfg)
        build_exc = None
    except SimInterrupt:
        raise
    except Exception as e:
        build_exc = e
        sut = None
    # the reference builds the same way; a construction error common to both is
    # not a history effect (C01/C02 report those)
    ref_cache = {}

    def reference(op):
        key = digest([op["q"], op["ctx"], op.get("ext"), op.get("n"), op.get("a"), op.get("t"),
                      op.get("args"), op.get("lm"), op.get("kw"), op.get("obj")])
        if key in ref_cache:
            return ref_cache[key]
        r = server.ask({k: v for k, v in op.items() if k not in ("abort", "order_seed")})
        ref_cache[key] = r
        return r

    if build_exc is not None:
        chaos.begin(0, epoch=False)
        try:
            cfg2, _ = _user_cfg(ab, pres, mode, sc.get("pre"))
            _build(kind, cfg2)
            out.violation("history:build-exc", sig={"kind": kind}, detail=short(repr(build_exc), 200))
        except Exception as e2:
            out.probe("both_fail_to_build")
            if type(e2) is not type(build_exc):
                out.violation("history:build-exc-type", sig={"kind": kind},
                              detail=f"{type(build_exc).__name__} vs {type(e2).__name__}")
        return out

    queried = []
    retained = []
    states = set()
    last_fault_at = -1
    n_both_raise = 0
    last_evict = None
    for i, op in enumerate(sc["ops"]):
        name = op["op"]
        chaos.note_event(f"op {i} {name} {op.get('q', '')}")
        out.steps += 1
        if name == "evict":
            if hasattr(sut, "clear_cache"):
                sut.clear_cache()
                out.probe("fault_evict")
                last_evict = i
            elif kind == "cfg":
                pass
            last_fault_at = i
            continue
        if name == "noise":
            chaos.begin(0, epoch=False)
            try:
                with libcall("noise"):
                    _noise(int(op.get("what", 0)))
            except Exception as e:
                out.probe("noise_raised")
            out.probe("fault_noise_other_library_activity")
            last_fault_at = i
            continue
        if name == "counter":
            set_counter(_counter() + int(op["k"]))
            out.probe("fault_counter_jump")
            last_fault_at = i
            continue
        if name == "warm":
            chaos.begin(op.get("order_seed", sched.get("order_seed", 0)), epoch=False)
            c = tr(op["ctx"])
            try:
                model = getattr(sut, "model", sut)
                model = getattr(model, "model", model)
                model.chart(c)
            except Exception as e:
                out.violation(f"history:warm-exc:{type(e).__name__}", sig={"kind": kind, "len": len(c)},
                              detail=short(str(e), 120))
            out.probe("warm_steps")
            continue
        # query
        ctx = tuple(op["ctx"])
        if len(ctx) >= 100:
            out.probe("long_context_queries")
            if last_evict is not None and not any(len(q) >= len(ctx) for q in queried[-1:]):
                out.probe("cold_long")
        if any(len(q) > len(ctx) and q[: len(ctx)] == ctx for q in queried):
            out.probe("short_after_long")
            if last_evict is not None and queried and last_evict > 0:
                out.probe("evict_between_nested")
        if ctx and any(len(q) >= len(ctx) and q[: len(ctx) - 1] == ctx[:-1] and q[len(ctx) - 1] != ctx[-1]
                       for q in queried):
            out.probe("sibling_after_child")
        if ctx in queried:
            out.probe("repeat_query")
        if OOV in ctx:
            out.probe("oov_context")
        if gen.EOS in ctx:
            out.probe("eos_in_context")
        queried.append(ctx)

        chaos.begin(op.get("order_seed", 0) if sched.get("order_seed", 0) else 0, epoch=False)
        aborted = False
        if op.get("abort"):
            spec = op["abort"]
            if isinstance(spec, dict):
                total = _count_lines(lambda: _do_query(kind, sut, op, tr, user_cfg))
                n_abort = max(1, int(spec["frac"] * total)) if total > 0 else 1
                out.probe("abort_positions_measured")
            else:
                n_abort = int(spec)
            chaos.note_event(f"abort at line {n_abort}")
            ab_ = _Abort(n_abort)
            try:
                with libcall(f"{kind}:{op['q']}"):
                    st, raw = ab_.run(lambda: _do_query(kind, sut, op, tr, user_cfg))
                got = ("ok", _canon(raw, mode)) if st == "done" else None
                aborted = st == "aborted"
                if st == "done":
                    retained.append((i, op["q"], raw, _freeze(raw, mode)))
            except Exception as e:
                got = ("exc", type(e).__name__, short(str(e), 160))
            if aborted:
                out.probe("fault_abort")
                out.probe(f"abort_site:{ab_.where[0]}")
                last_fault_at = i
        else:
            try:
                with libcall(f"{kind}:{op['q']}"):
                    raw = _do_query(kind, sut, op, tr, user_cfg)
                    got = ("ok", _canon(raw, mode))
                retained.append((i, op["q"], raw, _freeze(raw, mode)))
            except Exception as e:
                got = ("exc", type(e).__name__, short(str(e), 160))
        # "earlier results stay valid": an object handed to the caller by an earlier
        # query is never changed by a later one (the harness itself never writes to it)
        for j, (i0, q0, raw0, fz0) in enumerate(retained[:-1] if retained and retained[-1][0] == i else retained):
            now = _freeze(raw0, mode)
            if now != fz0:
                out.violation("history:earlier-result-changed", sig={"kind": kind, "q0": q0, "q": op["q"]},
                              op_index=i, returned_at=i0, was=short(repr(fz0), 200), now=short(repr(now), 200))
                retained[j] = (i0, q0, raw0, now)
        if len(retained) > 1:
            out.probe("retained_results_rechecked")
        # purity of the user's grammar (checked after every operation, aborted or not)
        snap = _snapshot(user_cfg)
        if snap != snap0:
            what = "rules" if snap[0] != snap0[0] else ("V" if snap[1] != snap0[1] else "S")
            out.violation(f"purity:{what}", sig={"kind": kind, "q": op["q"], "t": op.get("t"), "lm": op.get("lm")},
                          op_index=i, before=short(repr(snap0), 300), after=short(repr(snap), 300))
            snap0 = snap
        if aborted:
            continue
        if op.get("kw"):
            # a truncated / coarse fixed-point query (maxiter, tol): its own value
            # legitimately depends on the pop order; it only serves as history
            out.probe("coarse_queries_as_history")
            continue
        want = reference(op)
        out.evals += 1
        if got[0] == "exc" and want[0] == "exc":
            n_both_raise += 1
            if got[1] != want[1]:
                out.violation("history:exc-type", sig={"kind": kind, "q": op["q"]}, op_index=i,
                              got=got[1], want=want[1], detail=got[2])
        elif got[0] != want[0]:
            cls = "history:exc-only-on-used-object" if got[0] == "exc" else "history:exc-only-on-fresh-object"
            sig = {"kind": kind, "q": op["q"], "long": len(ctx) >= 100,
                   "exc": got[1] if got[0] == "exc" else want[1]}
            out.violation(cls, sig=sig, op_index=i, ctx_len=len(ctx),
                          got=got[1] if got[0] == "exc" else _show(got[1], mode),
                          want=want[1] if want[0] == "exc" else _show(want[1], mode),
                          after_fault=("abort-residue" if last_fault_at >= 0 and any(
                              o.get("abort") for o in sc["ops"][:i]) else None))
        elif not _same(got[1], want[1], mode):
            residue = any(o.get("abort") for o in sc["ops"][:i] if o["op"] == "query")
            out.violation("history:value", sig={"kind": kind, "q": op["q"], "abort_residue_possible": residue},
                          op_index=i, ctx=short(list(ctx), 120), got=_show(got[1], mode),
                          want=_show(want[1], mode))
        # state coverage: shape of the cache after the operation
        model = getattr(sut, "model", sut)
        model = getattr(model, "model", model)
        ch = getattr(model, "_chart", None)
        if isinstance(ch, dict) and len(ch) < 200:
            states.add(digest([sorted(len(k) for k in ch), op["q"]]))
    out.probe("both_raise", n_both_raise)
    out.probe("kind_" + kind.split(":")[0])
    out.probe("mode_" + ab["mode"])
    out.probe("cache_states", len(states))
    out.probes.update({f"chaos_{k}": v for k, v in chaos.stats().items()})
    out.sample = {"kind": kind, "mode": ab["mode"], "grammar": ab["rules"],
                  "ops": [{k: (v if k != "ctx" or len(v) < 12 else f"<{len(v)} tokens>") for k, v in o.items()
                           if k != "order_seed"} for o in sc["ops"][:30]]}
    return out


def _counter():
    import genlm.grammar.cfg as cfgmod

    return cfgmod._gen_nt.i


def shrink_candidates(sc):
    from ..common import shrink_candidates as generic

    yield from generic(sc)
    import copy

    # shorten contexts, drop faults
    for i, op in enumerate(sc["ops"]):
        if op.get("abort"):
            c = copy.deepcopy(sc)
            del c["ops"][i]["abort"]
            yield c
        if op["op"] in ("query", "warm") and len(op.get("ctx", [])) > 1:
            for cut in (len(op["ctx"]) // 2, len(op["ctx"]) - 1):
                c = copy.deepcopy(sc)
                c["ops"][i]["ctx"] = op["ctx"][:cut]
                yield c
