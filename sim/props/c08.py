"""C08 — total weights are the least solution of the grammar equations,
whatever the agenda pop order (set orders, rule order, SCC/bucket order, hash
seed)."""
from .. import chaos, gen, ref
from ..common import Outcome, apply_schedule, draw_schedule, guarded
from ..core import dec, digest
from ..modes import Mode

ID = "C08"
RULE = ("one run = one swarm-generated grammar with finite total weights (Boolean, MaxTimes, MaxPlus, Poly on "
        "non-recursive shapes, convergent Float / Real / Log / Expectation) under 3-6 schedules (rule permutation, duplicate "
        "split/merge, renaming, insertion order of V, ChaosSet-driven SCC/bucket order, an optional coarse "
        "warm-up query on the shared grammar object); agenda(), treesum(), "
        "naive_bottom_up() per nonterminal and expected_length compared with Kleene iteration from zero of the "
        "raw polynomial system; Z >= sum of string weights up to length 3; non-trivial = start symbol has "
        "non-zero total; distinct = distinct (grammar, schedule) digests")
COMPONENTS = {
    "real": ["CFG.agenda, treesum, naive_bottom_up, expected_length, dependency_graph, WeightedGraph.blocks/buckets, "
             "scc_decomposition, Expectation semiring"],
    "stub": ["set/frozenset -> ChaosSet/ChaosFrozenSet in the share of schedules with the seam on "
             "(dict order and dict.popitem() are language-guaranteed and left alone)"],
}
ASSUMPTIONS = [
    "float modes: generated grammars converge geometrically (Kleene iteration of the totals stabilises within 250 steps at generation time); tolerance 1e-9 + 1e-6 relative ('up to the convergence tolerance')",
    "reference = Kleene iteration from zero on the raw rule list (least fixed point)",
]
MODE_WEIGHTS = [("bool", 2), ("poly", 3), ("maxtimes", 3), ("maxplus", 2), ("float", 5), ("real", 2), ("log", 2),
                ("expect", 2)]


def generate(rng, tier):
    from .c02 import pick_mode

    mode = pick_mode(rng, MODE_WEIGHTS)
    ab = gen.grammar(rng, mode, tier, nonrecursive=(mode == "poly"))
    K = rng.choice([3, 4]) if tier == "quick" else rng.choice([4, 5, 6])
    scheds = [draw_schedule(rng, ab, gen, identity=(i == 0 and rng.random() < 0.4), p_heap=0.0) for i in range(K)]
    # order of queries on the shared grammar object is part of the schedule:
    # a coarse / truncated query may come first, results must not stick
    for s in scheds:
        s["warmup"] = rng.choice([None, None, ["treesum", {"maxiter": 3}], ["treesum", {"tol": 0.2}],
                                  ["agenda", {"maxiter": 2}], ["naive", {"timeout": 1}], ["treesum", {}]])
    return {"property": ID, "grammar": ab, "schedules": scheds,
            "strings": [s for s in gen.all_strings(ab["V"], 3 if len(ab["V"]) < 3 else 2)]}


def ref_moment(rules, V, cap=6000, eps=1e-15):
    """Kleene iteration on pairs (total, length-moment): the expectation
    semiring written out; rule weight (w, w * number of terminals in body)."""
    N = ref.nonterminals(rules, V)
    Z = {X: (0.0, 0.0) for X in N}
    for _ in range(cap):
        new = {X: (0.0, 0.0) for X in N}
        for w, h, b in rules:
            p, r = w, w * sum(1 for y in b if y in V)
            for y in b:
                if y not in V:
                    q, s = Z[y]
                    p, r = p * q, p * s + r * q
            new[h] = (new[h][0] + p, new[h][1] + r)
        done = all(abs(new[X][0] - Z[X][0]) <= eps and abs(new[X][1] - Z[X][1]) <= eps for X in N)
        Z = new
        if done:
            return Z
    raise ref.RefDiverged("ref_moment")


def execute(sc):
    out = Outcome()
    ab = sc["grammar"]
    mode = Mode(ab["mode"])
    rules, V, S = gen._raw(ab, mode)
    Z = ref.ref_total(rules, V, mode.alg)
    N = gen.abstract_N(ab)
    zero = mode.zero
    out.nontrivial = not mode.is_zero(Z.get(S, zero))
    canon = gen.canon(ab)
    out.sig = []
    moment = None
    lower = None
    if mode.name == "float":
        moment = ref_moment(rules, V)
        null = ref.ref_null(rules, V, mode.alg)
        lower = sum(ref.ref_inside(rules, V, S, tuple(x), mode.alg, null=null) for x in sc.get("strings", []))
    for si, s in enumerate(sc["schedules"]):
        apply_schedule(s)
        chaos.note_event(f"schedule {si}")
        out.sig.append(digest([canon, s]))
        ok, built = guarded(out, "build", lambda: gen.build_cfg(ab, s["pres"], mode))
        if not ok:
            continue
        cfg, tmap = built
        nmap = {k: dec(v) for k, v in s["pres"]["nmap"].items()}
        wu = s.get("warmup")
        if wu:
            fn = {"treesum": cfg.treesum, "agenda": cfg.agenda, "naive": cfg.naive_bottom_up}[wu[0]]
            guarded(out, f"warmup:{wu[0]}", lambda: fn(**wu[1]), sig={"mode": mode.name})
            out.probe(f"warmup_{wu[0]}")
        for comp, fn in (("agenda", lambda: cfg.agenda()), ("naive", lambda: cfg.naive_bottom_up())):
            ok, chart = guarded(out, comp, fn, sig={"mode": mode.name})
            out.steps += 1
            if not ok:
                continue
            for X in N:
                want = Z.get(X, zero)
                got = chart[nmap[X]]
                out.evals += 1
                if not mode.close(got, want):
                    out.violation(f"total:{comp}", sig={"mode": mode.name, "start": X == S}, symbol=X,
                                  got=mode.show(got), want=mode.show(want), schedule=si)
                    break
            for a in ab["V"]:
                if comp == "agenda" and not mode.close(chart[tmap[a]], mode.one):
                    out.violation("total:agenda-terminal", sig={"mode": mode.name}, symbol=a,
                                  got=mode.show(chart[tmap[a]]), schedule=si)
        ok_ts, ts = guarded(out, "treesum", lambda: cfg.treesum(), sig={"mode": mode.name})
        ok = ok_ts
        out.evals += 1
        if ok and not mode.close(ts, Z.get(S, zero)):
            out.violation("total:treesum", sig={"mode": mode.name}, got=mode.show(ts),
                          want=mode.show(Z.get(S, zero)), schedule=si)
        if ok and lower is not None and not (lower <= ts + 1e-9 + 1e-6 * abs(ts)):
            out.violation("total:below-language-sum", sig={"mode": mode.name}, got=repr(ts), lower_bound=repr(lower),
                          schedule=si)
        if moment is not None:
            ok, el = guarded(out, "expected_length", lambda: cfg.expected_length, sig={"mode": mode.name})
            out.evals += 1
            want = moment.get(S, (0.0, 0.0))[1]
            if ok and not (abs(el - want) <= 1e-9 + 1e-6 * max(abs(el), abs(want))):
                out.violation("total:expected_length", sig={"mode": mode.name}, got=repr(el), want=repr(want),
                              schedule=si)
        chaos.note_event(f"Z {mode.show(ts) if ok_ts and mode.exact else '?'}")
    out.probes.update({f"chaos_{k}": v for k, v in chaos.stats().items()})
    out.sample = {"grammar": ab["rules"], "S": ab["S"], "mode": ab["mode"], "Z_start": mode.show(Z.get(S, zero)),
                  "n_schedules": len(sc["schedules"]), "features": ab.get("features")}
    return out
