import importlib

CLAIMED = ["C01", "C02", "C04", "C05", "C06", "C08"]


def get(pid):
    return importlib.import_module(f"sim.props.{pid.lower()}")
