"""C02 — every parser returns the derivation-sum weight of a string, whatever
the schedule (rule order, names, hash seed, set orders, agenda tie-breaks)."""
from .. import chaos, gen, ref
from ..common import Outcome, apply_schedule, draw_schedule, guarded
from ..core import digest
from ..modes import Mode

ID = "C02"
RULE = ("one run = one swarm-generated grammar in one of 8 semiring modes (Boolean, MaxTimes over rationals, MaxPlus, "
        "Poly = free commutative user semiring with one indeterminate per rule, Float, Real, Log incl. very small "
        "probabilities, Expectation) under 3-8 schedules = (presentation: rule permutation / duplicate split or "
        "merge / injective renaming incl. ints, tuples, token-like names / V insertion order; ChaosSet order seed; "
        "heap tie-break policy; fresh-name counter start) in an interpreter with a pinned PYTHONHASHSEED; cfg(x), "
        "Earley, rescaled Earley (float), IncrementalCKY on cnf, all on one shared parser object per schedule, for "
        "every string up to length 3-4 (always the empty string), sampled members up to length 8 and corruptions; "
        "materialize(n), n=0..3; compared with the derivation sum computed by the reference in its own arithmetic; "
        "non-trivial = some string has non-zero weight; distinct = distinct (grammar, schedule) digests")
COMPONENTS = {
    "real": ["CFG.__call__/_parse_chart, cnf pipeline, Earley, earley_rescaled.Earley, IncrementalCKY, materialize/"
             "language/derivations, all shipped weight types used by the mode"],
    "stub": ["set/frozenset -> ChaosSet/ChaosFrozenSet and arsenal LocatorMaxHeap -> ChaosHeap in the share of "
             "schedules with the seam on (real_vs_stub)"],
}
ASSUMPTIONS = [
    "reference evaluator sim.ref.Inside in its own arithmetic (sim.modes shadow weights), validated by ./check selftest --oracles",
    "float-like modes: generated grammars converge (checked by iteration at generation time); tolerance 1e-9 + 1e-6 relative; Log: 1e-6 in log space; Boolean, Poly, MaxPlus exact",
    "Poly: grammars without cyclic symbols, strings with at most 300 derivation trees",
]
MODE_WEIGHTS = [("bool", 3), ("poly", 4), ("maxtimes", 2), ("maxplus", 2),
                ("float", 5), ("real", 2), ("log", 2), ("expect", 2)]


def pick_mode(rng, table=MODE_WEIGHTS):
    names = [m for m, k in table for _ in range(k)]
    return rng.choice(names)


def generate(rng, tier):
    mode = pick_mode(rng)
    ab = gen.grammar(rng, mode, tier)
    K = rng.choice([3, 4, 5]) if tier == "quick" else rng.choice([4, 6, 8])
    scheds = [draw_schedule(rng, ab, gen, identity=(i == 0 and rng.random() < 0.5)) for i in range(K)]
    cap = 60 if tier == "quick" else 130
    strs = gen.cap_ambiguity(ab, gen.strings(rng, ab, extra=4 if tier == "quick" else 8, cap=cap))
    return {
        "property": ID, "grammar": ab, "strings": strs, "schedules": scheds,
        "materialize": rng.choice([0, 1, 2, 2, 3]),
    }


PARSERS = ("cfgcall", "earley", "rescaled", "icky")


def execute(sc):
    out = Outcome()
    ab = sc["grammar"]
    mode = Mode(ab["mode"])
    rules, V, S = gen._raw(ab, mode)
    null = ref.ref_null(rules, V, mode.alg)
    refval = {}

    def want(x):
        k = tuple(x)
        if k not in refval:
            refval[k] = ref.ref_inside(rules, V, S, k, mode.alg, null=null)
        return refval[k]

    strs = [tuple(x) for x in sc["strings"]]
    nonzero = sum(1 for x in strs if not mode.is_zero(want(x)))
    out.nontrivial = nonzero > 0
    out.probe("strings_in_language", nonzero)
    out.probe("strings_outside_language", len(strs) - nonzero)
    out.sig = []
    canon = gen.canon(ab)
    only = sc.get("only")  # optional: restrict to some components (minimiser)

    for si, s in enumerate(sc["schedules"]):
        apply_schedule(s)
        chaos.note_event(f"schedule {si}")
        out.sig.append(digest([canon, s]))
        ok, built = guarded(out, "build", lambda: gen.build_cfg(ab, s["pres"], mode),
                            sig={"phase": "build"})
        if not ok:
            continue
        cfg, tmap = built
        tr = lambda x: tuple(tmap[a] for a in x)  # noqa
        parsers = {}

        def mk_earley():
            from genlm.grammar.parse.earley import Earley
            return Earley(cfg)

        def mk_rescaled():
            from genlm.grammar.parse.earley_rescaled import Earley
            return Earley(cfg)

        def mk_icky():
            from genlm.grammar.parse.cky import IncrementalCKY
            return IncrementalCKY(cfg.cnf)

        makers = {"cfgcall": lambda: cfg, "earley": mk_earley, "icky": mk_icky}
        if mode.name == "float":
            makers["rescaled"] = mk_rescaled
        for name, mk in makers.items():
            if only and name not in only:
                continue
            ok, p = guarded(out, name, mk, sig={"phase": "construct", "mode": mode.name})
            if ok:
                parsers[name] = p
        for x in strs:
            w = want(x)
            cx = tr(x)
            for name, p in parsers.items():
                sig = {"empty": len(x) == 0, "mode": mode.name, "float": mode.name == "float",
                       "phase": "query"}
                ok, got = guarded(out, name, lambda: p(cx), sig=sig)
                out.evals += 1
                out.steps += 1
                if not ok:
                    continue
                if not mode.well_typed(got):
                    out.violation(f"type:{name}", sig=sig, string=list(x), got=repr(got),
                                  want=mode.show(w), schedule=si)
                elif not mode.close(got, w):
                    out.violation(f"value:{name}", sig=sig, string=list(x), got=mode.show(got),
                                  want=mode.show(w), schedule=si)
                chaos.note_event(f"{name} {x} {mode.show(got) if ok and mode.exact else ''}")
        n = sc.get("materialize")
        if n is not None and (not only or "materialize" in only) and "cfgcall" in parsers:
            sig = {"n": n, "n_zero": n == 0, "mode": mode.name}
            ok, lang = guarded(out, "materialize", lambda: cfg.materialize(n), sig=sig)
            out.evals += 1
            if ok:
                inv = {v: k for k, v in tmap.items()}
                got = {}
                bad_key = False
                for k, v in lang.items():
                    if not mode.is_zero(v):
                        try:
                            got[tuple(inv[a] for a in k)] = v
                        except Exception:
                            bad_key = True
                exp = {tuple(x): want(x) for x in gen.all_strings(ab["V"], n)
                       if not mode.is_zero(want(x))}
                # Support: exact in Boolean / Poly / MaxPlus / Log.  In the modes whose
                # fixed points carry an ABSOLUTE tolerance (agenda tol=1e-12 on null
                # weights: Float, Real, Expectation, MaxTimes) a string whose weight is
                # below 1e-9 may legitimately be dropped (or kept) - same tolerance as
                # for the values themselves.
                if mode.name in ("float", "real", "expect", "maxtimes"):
                    tiny = lambda v: mode.close(v, mode.zero, typed=False)  # noqa
                    miss_all = [k for k in set(exp) - set(got) if not tiny(exp[k])]
                    extra_all = [k for k in set(got) - set(exp) if not tiny(got[k])]
                    exp = {k: v for k, v in exp.items() if k in got}
                    got = {k: v for k, v in got.items() if k in exp}
                else:
                    miss_all = list(set(exp) - set(got))
                    extra_all = list(set(got) - set(exp))
                if bad_key or miss_all or extra_all:
                    miss = sorted(miss_all)[:3]
                    extra = sorted(extra_all)[:3]
                    sig2 = dict(sig, missing_empty=(() in miss))
                    out.violation("materialize:support", sig=sig2, n=n,
                                  missing=[list(m) for m in miss], extra=[list(m) for m in extra],
                                  schedule=si)
                else:
                    for k in exp:
                        if not mode.close(got[k], exp[k]):
                            out.violation("materialize:weight", sig=sig, n=n, string=list(k),
                                          got=mode.show(got[k]), want=mode.show(exp[k]), schedule=si)
                            break
    out.probes.update({f"chaos_{k}": v for k, v in chaos.stats().items()})
    out.sample = {"grammar": ab["rules"], "S": ab["S"], "mode": ab["mode"],
                  "n_strings": len(strs), "n_schedules": len(sc["schedules"]),
                  "features": ab.get("features")}
    return out
