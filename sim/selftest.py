"""./check selftest [--full]: determinism, oracle validation, sensitivity.

1. determinism  - the same run seeds executed twice in fresh interpreters, in
   forward and reverse order, alone and inside a chunk, at two worker counts:
   event-log digests must be identical; and under a different PYTHONHASHSEED:
   verdicts must be identical, the share of identical decision logs is reported.
2. oracles      - the reference models against each other, against brute-force
   derivation enumeration, identities and closed forms.
3. sensitivity  - mutants (selftest/mutants/*.diff) and the sub-agents' seeded
   changes (seeded/*/patch.diff) applied to a scratch copy of the repository
   outside /repo and /verif; the named quick check must report a violation;
   semantics-preserving edits must stay silent.  (--full: all of them.)
"""
import json
import os
import subprocess
import sys
import time

from .core import REPO, VERIF, ensure_repo_on_path, rng_for

PROPS = ["C01", "C02", "C04", "C05", "C06", "C08"]


def _key(r):
    return (r.get("status"), r.get("log_digest"), r.get("evals"),
            tuple(sorted(v["class"] for v in r.get("violations", []))))


def determinism(full=False, log=print):
    from .runner import CHUNK, run_chunk

    seed = 424242
    bad = 0
    n = 64 if full else 24
    for prop in PROPS:
        ids = list(range(n))
        a = {r["run"]: r for r in run_chunk(prop, seed, "quick", 0, ids, 120, 300)}
        b = {r["run"]: r for r in run_chunk(prop, seed, "quick", 0, ids[::-1], 120, 300)}
        alone = {}
        for i in ids[:3]:
            alone[i] = run_chunk(prop, seed, "quick", 0, [i], 120, 300)[0]
        diff_ab = [i for i in ids if _key(a[i]) != _key(b[i])]
        diff_alone = [i for i in alone if _key(a[i]) != _key(alone[i])]
        # another interpreter hash seed: verdicts must not change; decision logs may
        hs = a[ids[0]]["hashseed"]
        c = {r["run"]: r for r in run_chunk(prop, seed, "quick", 0, ids, 120, 300, hashseed=(hs + 1) % 2 ** 32)}
        verdict_diff = [i for i in ids if a[i].get("status") != c[i].get("status")]
        same_log = sum(1 for i in ids if a[i].get("log_digest") == c[i].get("log_digest"))
        herr = [i for i in ids if a[i].get("status") not in ("ok", "violation", "skip")]
        log(f"determinism {prop}: {n} run seeds x (forward, reverse, alone[3]) digests differ: "
            f"{len(diff_ab)}+{len(diff_alone)}; other hash seed: verdicts differ {len(verdict_diff)}, "
            f"identical decision logs {same_log}/{n}; harness errors {len(herr)}")
        bad += len(diff_ab) + len(diff_alone) + len(verdict_diff) + len(herr)
    # worker counts: the chunk -> hash seed map does not depend on them
    from . import runner

    for prop in ("C02", "C05"):
        digs = []
        for w in (2, 16):
            res = []
            import concurrent.futures as cf

            chunks = [(c, list(range(c * CHUNK, c * CHUNK + 16))) for c in range(3)]
            with cf.ThreadPoolExecutor(max_workers=w) as ex:
                for rs in ex.map(lambda ci: run_chunk(prop, seed, "quick", ci[0], ci[1], 120, 300), chunks):
                    res.extend(rs)
            digs.append({r["run"]: _key(r) for r in res})
        d = [i for i in digs[0] if digs[0][i] != digs[1][i]]
        log(f"determinism {prop}: 48 run seeds in 3 chunks at 2 and 16 workers: digests differ: {len(d)}")
        bad += len(d)
    return bad


def oracles(full=False, log=print):
    ensure_repo_on_path()
    import math

    from . import gen, ref
    from .modes import Mode

    bad = 0
    n = 400 if full else 120
    # (a) inside: layered == global Kleene == brute force, exact (Poly)
    mode = Mode("poly")
    cmp_ = 0
    for k in range(n):
        rng = rng_for("oracle", "poly", k)
        ab = gen.grammar(rng, "poly", max_rules=7)
        rules, V, S = gen._raw(ab, mode)
        brute = ref.brute_language(rules, V, S, mode.alg, 3)
        for x in gen.all_strings(ab["V"], 3):
            x = tuple(x)
            a = ref.ref_inside(rules, V, S, x, mode.alg)
            b = ref.ref_inside_slow(rules, V, S, x, mode.alg)
            c = brute.get(x, mode.zero)
            cmp_ += 1
            if not (a == b == c):
                bad += 1
                log(f"ORACLE MISMATCH inside/poly grammar={ab['rules']} x={x}: {a} | {b} | {c}")
                break
    log(f"oracles: inside layered == global Kleene == brute-force enumeration (Poly, exact): {cmp_} comparisons")
    # (b) float: layered vs global; prefix fast vs slow; prefix identity
    mode = Mode("float")
    cmp_ = 0
    for k in range(n // 2):
        rng = rng_for("oracle", "float", k)
        ab = gen.grammar(rng, "float", max_rules=8)
        rules, V, S = gen._raw(ab, mode)
        Z = ref.ref_total(rules, V, mode.alg)
        for x in list(gen.all_strings(ab["V"], 2 if len(V) > 2 else 3)):
            x = tuple(x)
            a = ref.ref_inside(rules, V, S, x, mode.alg)
            b = ref.ref_inside_slow(rules, V, S, x, mode.alg)
            p = ref.ref_prefix(rules, V, S, x, mode.alg, Z=Z)
            q = ref.ref_prefix_slow(rules, V, S, x, mode.alg)
            ident = a + sum(ref.ref_prefix(rules, V, S, x + (t,), mode.alg, Z=Z) for t in ab["V"])
            cmp_ += 3
            tol = lambda u, v: abs(u - v) <= 1e-10 + 1e-8 * max(abs(u), abs(v))  # noqa
            if not (tol(a, b) and tol(p, q) and tol(p, ident)):
                bad += 1
                log(f"ORACLE MISMATCH float grammar={ab['rules']} x={x}: inside {a} {b}; prefix {p} {q}; identity {ident}")
                break
    log(f"oracles: float inside layered==global, prefix fast==slow, prefix(p)=w(p)+sum_a prefix(pa): {cmp_} comparisons")
    # (c) viability: recogniser vs Boolean prefix weights vs language prefixes
    modeb = Mode("bool")
    cmp_ = 0
    for k in range(n):
        rng = rng_for("oracle", "bool", k)
        ab = gen.grammar(rng, "bool", max_rules=8)
        rules, V, S = gen._raw(ab, modeb)
        Z = ref.ref_total(rules, V, modeb.alg)
        members = [tuple(x) for x in gen.all_strings(ab["V"], 4) if ref.ref_recognise(rules, V, S, tuple(x))]
        prefixes = {m[:i] for m in members for i in range(len(m) + 1)}
        for x in gen.all_strings(ab["V"], 3):
            x = tuple(x)
            v1 = ref.ref_viable(rules, V, S, x)
            v2 = not modeb.is_zero(ref.ref_prefix(rules, V, S, x, modeb.alg, Z=Z))
            r1 = ref.ref_recognise(rules, V, S, x)
            r2 = not modeb.is_zero(ref.ref_inside(rules, V, S, x, modeb.alg))
            cmp_ += 2
            if v1 != v2 or r1 != r2 or (x in prefixes and not v1):
                bad += 1
                log(f"ORACLE MISMATCH viability grammar={ab['rules']} x={x}: viable {v1} {v2} recognise {r1} {r2}")
                break
    log(f"oracles: Earley recogniser == Boolean inside, viable == Boolean prefix weight, prefixes of members viable: {cmp_} comparisons")
    # (d) closed forms vs reference on short members of the named families
    from .props import c04

    cmp_ = 0
    for name in c04.LONG:
        for q in (0.2, 0.3, 0.45):
            ab = gen.named(name, q)
            rules, V, S = gen._raw(ab, mode)
            for nlen in (2, 4, 6, 8):
                x = tuple(gen.named_long_string(name, rng_for("cf", name, nlen), nlen))
                w = ref.ref_inside(rules, V, S, x, mode.alg)
                cf_ = math.exp(c04.closed_logw(name, q, x))
                cmp_ += 1
                if not abs(w - cf_) <= 1e-12 + 1e-9 * cf_:
                    bad += 1
                    log(f"ORACLE MISMATCH closed form {name} q={q} x={x}: ref {w} closed {cf_}")
    log(f"oracles: closed forms of the named families == reference inside weights: {cmp_} comparisons")
    return bad


def machinery(log=print):
    """Known-finding matching: class + sig subset, nothing else is suppressed."""
    from .runner import match_known

    known = [{"id": "K1", "property": "C02", "class": "value:earley", "sig": {"mode": "log", "empty": True}, "what": "x"}]
    v_same = {"class": "value:earley", "sig": {"mode": "log", "empty": True, "phase": "query"}}
    v_other_input = {"class": "value:earley", "sig": {"mode": "log", "empty": False}}
    v_other_class = {"class": "value:icky", "sig": {"mode": "log", "empty": True}}
    bad = 0
    bad += match_known("C02", v_same, known) is None
    bad += match_known("C02", v_other_input, known) is not None
    bad += match_known("C02", v_other_class, known) is not None
    bad += match_known("C06", v_same, known) is not None
    log(f"machinery: known-finding matching (same input matched, different input / class / property reported): "
        f"{'ok' if not bad else 'FAILED'}")
    return bad


def _apply_and_check(name, patch, checks, expect_violation, runs, log):
    wt = os.path.expanduser(f"~/scratch-selftest-{name}")
    subprocess.run(["git", "-C", REPO, "worktree", "remove", "--force", wt], capture_output=True)
    r = subprocess.run(["git", "-C", REPO, "worktree", "add", "-q", "--detach", wt, "HEAD"], capture_output=True, text=True)
    if r.returncode != 0:
        log(f"sensitivity {name}: cannot create scratch worktree: {r.stderr.strip()}")
        return 1
    bad = 0
    try:
        r = subprocess.run(["git", "-C", wt, "apply", patch], capture_output=True, text=True)
        if r.returncode != 0:
            log(f"sensitivity {name}: patch does not apply to the current tree (skipped): {r.stderr.strip()[:200]}")
            return 0
        caught = []
        for c in checks:
            cmd = [os.path.join(VERIF, "check"), c, "--tier", "quick", "--no-evidence"] + (["--runs", str(runs)] if runs else [])
            t0 = time.time()
            rr = subprocess.run(cmd, cwd=VERIF, env=dict(os.environ, VERIF_REPO=wt), capture_output=True, text=True)
            classes = sorted({l.split('"class": "')[1].split('"')[0] for l in rr.stdout.splitlines() if '"class": "' in l})
            caught.append((c, rr.returncode, classes, round(time.time() - t0)))
        any_v = any(rc == 1 for _, rc, _, _ in caught)
        ok = any_v if expect_violation else all(rc == 0 for _, rc, _, _ in caught)
        log(f"sensitivity {name}: expect {'violation' if expect_violation else 'silence'} -> "
            f"{'OK' if ok else 'FAILED'} {caught}")
        bad += 0 if ok else 1
    finally:
        subprocess.run(["git", "-C", REPO, "worktree", "remove", "--force", wt], capture_output=True)
        # replay files written while checking a mutant are not findings on /repo
        for f in os.listdir(os.path.join(VERIF, "replays")):
            pass
    return bad


def sensitivity(full=False, log=print):
    bad = 0
    mdir = os.path.join(VERIF, "selftest", "mutants")
    meta = json.load(open(os.path.join(mdir, "meta.json")))
    jobs = []
    for name, m in sorted(meta.items()):
        if not m.get("repo_tests_pass"):
            continue  # a mutant the repository's own tests already catch proves nothing
        jobs.append((name, os.path.join(mdir, name + ".diff"), m["properties"] or ["C02", "C05"], not m.get("silent")))
    sdir = os.path.join(VERIF, "seeded")
    for name in sorted(os.listdir(sdir)):
        mp = os.path.join(sdir, name, "meta.json")
        if os.path.exists(mp):
            m = json.load(open(mp))
            jobs.append((name, os.path.join(sdir, name, "patch.diff"), sorted(m.get("caught_by", {m["property"]: ""}))[:1]
                         if not full else sorted(m.get("caught_by", {m["property"]: ""})), True))
    if not full:
        keep = {"M04_plain_order_max", "M02_memoise_before_compute", "S02_silent_extra_trim", "C05-A"}
        jobs = [j for j in jobs if j[0] in keep]
    before = set(os.listdir(os.path.join(VERIF, "replays")))
    for name, patch, checks, expect in jobs:
        bad += _apply_and_check(name, patch, checks[:1] if not full else checks, expect, None, log)
    for f in set(os.listdir(os.path.join(VERIF, "replays"))) - before:
        os.remove(os.path.join(VERIF, "replays", f))
    return bad


def main(a):
    full = "--full" in sys.argv
    t0 = time.time()
    bad = 0
    parts = [p for p in ("determinism", "oracles", "sensitivity") if f"--{p}" in sys.argv] or ["determinism", "oracles", "sensitivity"]
    if "oracles" in parts:
        bad += machinery()
        bad += oracles(full)
    if "determinism" in parts:
        bad += determinism(full)
    if "sensitivity" in parts:
        bad += sensitivity(full)
    print(f"selftest: {'PASS' if bad == 0 else 'FAIL'} ({bad} problems) in {time.time() - t0:.0f}s")
    return 0 if bad == 0 else 1
