"""Reference models (oracles).  Short, written for obviousness, no code shared
with /repo, symbols opaque, working on the *raw* rule list (no normal form).

A grammar is (rules, V, S): rules = list of (w, head, body-tuple); V a set of
terminals; every other symbol is a nonterminal.  Weights are combined with the
operators ``+`` and ``*`` only; ``alg`` supplies zero, one and the convergence
test.  Every fixed point is a Kleene iteration from zero (= least solution =
sum over derivation trees).
"""


class RefDiverged(Exception):
    """The reference did not stabilise within its step cap: a harness problem
    (workload outside the reference's domain), never a verdict."""


class Alg:
    def __init__(self, zero, one, exact, eps=1e-15, cap=None, metric=None, relative=False):
        self.relative = relative
        self.zero = zero
        self.one = one
        self.exact = exact
        self.eps = eps
        self.cap = cap if cap is not None else (400 if exact else 6000)
        self.metric = metric

    def same(self, a, b):
        if a == b:
            return True
        if self.exact:
            return False
        d = self.metric(a, b) if self.metric is not None else abs(a - b)
        if d <= 1e-300:
            return True
        if self.relative:
            try:
                m = max(abs(float(getattr(a, "score", a))), abs(float(getattr(b, "score", b))))
            except Exception:
                m = 1.0
            return d <= self.eps * m
        return d <= self.eps


def nonterminals(rules, V):
    N = []
    seen = set()
    for _, h, b in rules:
        for y in (h,) + tuple(b):
            if y not in V and y not in seen:
                seen.add(y)
                N.append(y)
    return N


# ---------------------------------------------------------------------------
# totals


def ref_total(rules, V, alg, extra_N=()):
    """Least solution of Z[X] = sum_{X -> b} w * prod Z[b_i]  (terminals: one)."""
    N = nonterminals(rules, V) + [x for x in extra_N]
    Z = {X: alg.zero for X in N}
    for _ in range(alg.cap):
        new = {X: alg.zero for X in N}
        for w, h, b in rules:
            v = w
            for y in b:
                if y not in V:
                    v = v * Z[y]
            new[h] = new[h] + v
        done = all(alg.same(new[X], Z[X]) for X in N)
        Z = new
        if done:
            return Z
    raise RefDiverged("ref_total")


def ref_null(rules, V, alg):
    """e[X] = total weight of X deriving the empty string."""
    eps_rules = [(w, h, b) for (w, h, b) in rules if all(y not in V for y in b)]
    return ref_total(eps_rules, V, alg)


# ---------------------------------------------------------------------------
# inside weights: the obvious version and a layered version (validated against
# each other by the self-test)


def _seq(body, i, j, get, alg):
    """Weight of `body` deriving exactly x[i:j] given item values get(y,p,q)."""
    cur = {i: alg.one}
    for y in body:
        nxt = {}
        for p, a in cur.items():
            for q in range(p, j + 1):
                b = get(y, p, q)
                if b is not None:
                    v = a * b
                    nxt[q] = nxt[q] + v if q in nxt else v
        cur = nxt
        if not cur:
            return None
    return cur.get(j)


def ref_inside_slow(rules, V, S, x, alg):
    """Global Kleene iteration over all items (X, i, j), 0 <= i <= j <= n."""
    n = len(x)
    val = {}

    def get(y, p, q):
        if y in V:
            return alg.one if (q == p + 1 and x[p] == y) else None
        return val.get((y, p, q))

    for _ in range(alg.cap):
        new = {}
        for w, h, b in rules:
            for i in range(n + 1):
                for j in range(i, n + 1):
                    v = _seq(b, i, j, get, alg)
                    if v is not None:
                        k = (h, i, j)
                        new[k] = new[k] + w * v if k in new else w * v
        done = set(new) == set(val) and all(alg.same(new[k], val[k]) for k in new)
        val = new
        if done:
            return val.get((S, 0, n), alg.zero)
    raise RefDiverged("ref_inside_slow")


class Inside:
    """Layered inside computation for one string: null weights first, then
    spans by increasing width; within one span the only cyclic dependencies
    are unary-like (X -> alpha Y beta with alpha, beta deriving empty) and are
    solved by Kleene iteration of  v = b + A v."""

    def __init__(self, rules, V, alg, x, null=None):
        self.rules, self.V, self.alg, self.x = rules, V, alg, tuple(x)
        self.N = nonterminals(rules, V)
        self.e = null if null is not None else ref_null(rules, V, alg)
        self.val = {}
        n = len(self.x)
        zero = alg.zero
        for X in self.N:
            ex = self.e.get(X, zero)
            if not (ex == zero):
                for i in range(n + 1):
                    self.val[(X, i, i)] = ex
        # unary-like coefficient matrix A[X] = list of (Y, coeff)
        A = {}
        for w, h, b in rules:
            for m, y in enumerate(b):
                if y in V:
                    continue
                c = w
                ok = True
                for m2, y2 in enumerate(b):
                    if m2 == m:
                        continue
                    if y2 in V:
                        ok = False
                        break
                    ey = self.e.get(y2, zero)
                    if ey == zero:
                        ok = False
                        break
                    c = c * ey
                if ok:
                    A.setdefault(h, []).append((y, c))
        self.A = A
        for d in range(1, n + 1):
            for i in range(0, n - d + 1):
                self._span(i, i + d)

    def get(self, y, p, q):
        if y in self.V:
            return self.alg.one if (q == p + 1 and self.x[p] == y) else None
        return self.val.get((y, p, q))

    def _span(self, i, j):
        alg = self.alg
        # contributions that do not use a full-width nonterminal child
        b = {}
        for w, h, body in self.rules:
            v = _seq(body, i, j, self.get, alg)  # full-width entries still absent
            if v is not None:
                b[h] = b[h] + w * v if h in b else w * v
        v = dict(b)
        for _ in range(alg.cap):
            new = dict(b)
            for X, lst in self.A.items():
                for Y, c in lst:
                    if Y in v:
                        t = c * v[Y]
                        new[X] = new[X] + t if X in new else t
            done = set(new) == set(v) and all(alg.same(new[k], v[k]) for k in new)
            v = new
            if done:
                break
        else:
            raise RefDiverged("Inside._span")
        for X, val in v.items():
            if not (val == alg.zero):
                self.val[(X, i, j)] = val

    def weight(self, X, i=0, j=None):
        j = len(self.x) if j is None else j
        return self.val.get((X, i, j), self.alg.zero)


def ref_inside(rules, V, S, x, alg, null=None):
    return Inside(rules, V, alg, x, null=null).weight(S)


# ---------------------------------------------------------------------------
# prefix weights (Jelinek-Lafferty): the unique child that contains the last
# token of p; inside weights to its left, totals to its right.


def ref_prefix(rules, V, S, p, alg, Z=None, null=None):
    p = tuple(p)
    n = len(p)
    if Z is None:
        Z = ref_total(rules, V, alg)
    if n == 0:
        return Z.get(S, alg.zero)
    ins = Inside(rules, V, alg, p, null=null)
    zero, one = alg.zero, alg.one

    def tot(y):
        return one if y in V else Z.get(y, zero)

    pre = {}
    for i in range(n - 1, -1, -1):
        # b: contributions whose distinguished child starts at j > i, or is the
        # terminal p[n-1]; A: distinguished child is a nonterminal starting at i
        b = {}
        A = {}
        for w, h, body in rules:
            for m, y in enumerate(body):
                tail = one
                dead = False
                for y2 in body[m + 1:]:
                    t = tot(y2)
                    if t == zero:
                        dead = True
                        break
                    tail = tail * t
                if dead:
                    continue
                for j in range(i, n):
                    left = _seq(body[:m], i, j, ins.get, alg)
                    if left is None:
                        continue
                    if y in V:
                        if j == n - 1 and p[j] == y:
                            t = w * left * tail
                            b[h] = b[h] + t if h in b else t
                    elif j > i:
                        c = pre.get((y, j))
                        if c is not None:
                            t = w * left * c * tail
                            b[h] = b[h] + t if h in b else t
                    else:
                        A.setdefault(h, []).append((y, w * left * tail))
        v = dict(b)
        for _ in range(alg.cap):
            new = dict(b)
            for X, lst in A.items():
                for Y, c in lst:
                    if Y in v:
                        t = c * v[Y]
                        new[X] = new[X] + t if X in new else t
            done = set(new) == set(v) and all(alg.same(new[k], v[k]) for k in new)
            v = new
            if done:
                break
        else:
            raise RefDiverged("ref_prefix")
        for X, val in v.items():
            if not (val == zero):
                pre[(X, i)] = val
    return pre.get((S, 0), zero)


def ref_prefix_slow(rules, V, S, p, alg):
    """Global Kleene version of ref_prefix (validation only)."""
    p = tuple(p)
    n = len(p)
    Z = ref_total(rules, V, alg)
    if n == 0:
        return Z.get(S, alg.zero)
    val = {}

    def get(y, a, c):
        if y in V:
            return alg.one if (c == a + 1 and p[a] == y) else None
        return val.get((y, a, c))

    # inside table by global Kleene
    for _ in range(alg.cap):
        new = {}
        for w, h, b in rules:
            for i in range(n + 1):
                for j in range(i, n + 1):
                    v = _seq(b, i, j, get, alg)
                    if v is not None:
                        k = (h, i, j)
                        new[k] = new[k] + w * v if k in new else w * v
        done = set(new) == set(val) and all(alg.same(new[k], val[k]) for k in new)
        val = new
        if done:
            break
    else:
        raise RefDiverged("ref_prefix_slow/inside")
    pre = {}
    for _ in range(alg.cap):
        new = {}
        for w, h, b in rules:
            for m, y in enumerate(b):
                tail = alg.one
                for y2 in b[m + 1:]:
                    tail = tail * (alg.one if y2 in V else Z.get(y2, alg.zero))
                if tail == alg.zero:
                    continue
                for i in range(n):
                    for j in range(i, n):
                        left = _seq(b[:m], i, j, get, alg)
                        if left is None:
                            continue
                        if y in V:
                            c = alg.one if (j == n - 1 and p[j] == y) else None
                        else:
                            c = pre.get((y, j))
                        if c is not None:
                            t = w * left * c * tail
                            new[(h, i)] = new[(h, i)] + t if (h, i) in new else t
        done = set(new) == set(pre) and all(alg.same(new[k], pre[k]) for k in new)
        pre = new
        if done:
            return pre.get((S, 0), alg.zero)
    raise RefDiverged("ref_prefix_slow")


# ---------------------------------------------------------------------------
# unweighted recogniser / viability (textbook Earley, naive per-column closure)


def productive(rules, V):
    P = set()
    changed = True
    while changed:
        changed = False
        for _, h, body in rules:
            if h not in P and all((y in V) or (y in P) for y in body):
                P.add(h)
                changed = True
    return P


def _earley_sets(rules, V, S, xs):
    by_head = {}
    for idx, (h, b) in enumerate(rules):
        by_head.setdefault(h, []).append(idx)

    def close(col, k, cols):
        changed = True
        while changed:
            changed = False
            for ri, d, o in list(col):
                h, b = rules[ri]
                if d < len(b):
                    y = b[d]
                    if y not in V:
                        for rj in by_head.get(y, ()):  # predict
                            it = (rj, 0, k)
                            if it not in col:
                                col.add(it)
                                changed = True
                        # nullable completion inside the same column
                        for rj, d2, o2 in list(col):
                            if o2 == k and rules[rj][0] == y and d2 == len(rules[rj][1]):
                                it = (ri, d + 1, o)
                                if it not in col:
                                    col.add(it)
                                    changed = True
                else:
                    src = cols[o] if o != k else col
                    for rj, d2, o2 in list(src):
                        hb = rules[rj][1]
                        if d2 < len(hb) and hb[d2] == h:
                            it = (rj, d2 + 1, o2)
                            if it not in col:
                                col.add(it)
                                changed = True

    cols = []
    col = set((ri, 0, 0) for ri in by_head.get(S, ()))
    close(col, 0, [col])
    cols.append(col)
    for k, x in enumerate(xs, 1):
        new = set()
        if x in V:
            for ri, d, o in cols[k - 1]:
                b = rules[ri][1]
                if d < len(b) and b[d] == x:
                    new.add((ri, d + 1, o))
        cols.append(new)
        close(new, k, cols)
    return cols


def ref_recognise(rules, V, S, xs):
    """rules: list of (w, head, body) with non-zero weights; weights ignored."""
    rr = [(h, tuple(b)) for _, h, b in rules]
    cols = _earley_sets(rr, V, S, tuple(xs))
    return any(o == 0 and rr[ri][0] == S and d == len(rr[ri][1]) for ri, d, o in cols[-1])


def ref_viable(rules, V, S, xs):
    """Can xs be completed to a string of the grammar?  Earley on the grammar
    restricted to productive rules has the valid-prefix property."""
    P = productive(rules, V)
    if S not in P:
        return False
    rr = [(h, tuple(b)) for _, h, b in rules
          if h in P and all((y in V) or (y in P) for y in b)]
    xs = tuple(xs)
    if not xs:
        return True
    if any(x not in V for x in xs):
        return False
    cols = _earley_sets(rr, V, S, xs)
    return len(cols[-1]) > 0


# ---------------------------------------------------------------------------
# brute force (validation of the references on finitely ambiguous grammars)


def brute_language(rules, V, S, alg, max_len, max_depth=60):
    """Weights of all strings of length <= max_len as sums over derivation
    trees, by enumerating trees of height 1, 2, ... over string-indexed tables
    (no spans, no normal form) until the tables of all symbols stop changing.
    Exact on grammars without cyclic symbols; RefDiverged otherwise."""
    by_head = {}
    for w, h, b in rules:
        by_head.setdefault(h, []).append((w, tuple(b)))
    N = nonterminals(rules, V)
    prev = {X: {} for X in N}  # height <= d
    for _ in range(max_depth):
        cur = {}
        for X in N:
            out = {}
            for w, b in by_head.get(X, ()):
                parts = [((), w)]
                for y in b:
                    if y in V:
                        parts = [(s + (y,), v) for s, v in parts if len(s) + 1 <= max_len]
                    else:
                        sub = prev[y]
                        parts = [(s + s2, v * v2) for s, v in parts for s2, v2 in sub.items()
                                 if len(s) + len(s2) <= max_len]
                    if not parts:
                        break
                for s_, v in parts:
                    out[s_] = out[s_] + v if s_ in out else v
            cur[X] = out
        if cur == prev:
            return cur.get(S, {})
        prev = cur
    raise RefDiverged("brute_language")


def cyclic_symbols(rules, V, productive_only=True):
    """Nonterminals X with X =>+ X through productive symbols (some string then
    has infinitely many derivations).  productive_only=False also reports
    cycles through useless symbols (the library's closures still meet them)."""
    P = productive(rules, V) if productive_only else set(nonterminals(rules, V))
    nullable = set()
    changed = True
    while changed:
        changed = False
        for _, h, b in rules:
            if h not in nullable and all(y in nullable for y in b):
                nullable.add(h)
                changed = True
    edges = {}
    for _, h, b in rules:
        if h not in P or not all((y in V) or (y in P) for y in b):
            continue
        for m, y in enumerate(b):
            if y in V:
                continue
            if all(y2 in nullable for k, y2 in enumerate(b) if k != m):
                edges.setdefault(h, set()).add(y)
    cyc = set()
    for X in list(edges):
        seen = set()
        stack = list(edges.get(X, ()))
        while stack:
            y = stack.pop()
            if y == X:
                cyc.add(X)
                break
            if y in seen:
                continue
            seen.add(y)
            stack.extend(edges.get(y, ()))
    return cyc
