"""Chunk worker: one interpreter per chunk, started with the chunk's
PYTHONHASHSEED; imports the repository once and then forks one child per run,
so a run never sees state left by another run and a replay in a fresh process
is the same execution.

Protocol: JSON lines on stdin -> JSON lines on stdout.
  {"cmd": "run",  "prop": id, "seed": S, "run": r, "tier": t}  generate + execute
  {"cmd": "exec", "prop": id, "scenario": {...}}                execute only
"""
import faulthandler
import json
import os
import resource
import select
import signal
import sys
import time
import traceback


def _child(req, wfd):
    from . import chaos
    from .core import mix, rng_for
    from .props import get as get_prop

    try:
        cpu = int(req.get("cpu", 120))
        resource.setrlimit(resource.RLIMIT_CPU, (cpu, cpu + 15))
        faulthandler.enable()

        def on_xcpu(signum, frame):
            # CPU budget exhausted: say where the time went, then stop
            from .common import LIBCLOCK

            res = dict(LIBCLOCK.snapshot(), status="budget", kind="cpu", error=f"cpu limit {cpu}s")
            data = json.dumps(res).encode()
            try:
                os.write(wfd, len(data).to_bytes(8, "big") + data)
            finally:
                os._exit(0)

        signal.signal(signal.SIGXCPU, on_xcpu)
        prop = get_prop(req["prop"])
        if req["cmd"] == "run":
            run_seed = mix(req["seed"], req["prop"], req["run"])
            rng = rng_for(run_seed, "workload")
            sc = prop.generate(rng, req["tier"])
            sc["run_seed"] = run_seed
            sc["run"] = req["run"]
            sc["seed"] = req["seed"]
        else:
            sc = req["scenario"]
        sc["hashseed"] = int(os.environ.get("PYTHONHASHSEED", "0") or 0)
        sys.setrecursionlimit(int(sc.get("recursionlimit", 1000)))
        out = prop.execute(sc)
        res = out.to_json()
        from .common import SEAM_STATS

        for k, v in SEAM_STATS.items():
            res["probes"]["seam_" + k] = res["probes"].get("seam_" + k, 0) + v
        res["log_digest"] = chaos.log_digest()
        res["status"] = "violation" if out.violations else "ok"
        ru = resource.getrusage(resource.RUSAGE_SELF)
        res["cpu_s"] = round(ru.ru_utime + ru.ru_stime, 3)
        if out.violations or req.get("want_scenario"):
            res["scenario"] = sc
    except BaseException as e:  # harness problem (incl. reference divergence)
        from .ref import RefDiverged

        res = {"status": "skip" if isinstance(e, RefDiverged) else "harness-error",
               "error": "".join(traceback.format_exception(type(e), e, e.__traceback__))[-3000:]}
    try:
        data = json.dumps(res, default=repr).encode()
        os.write(wfd, len(data).to_bytes(8, "big"))
        off = 0
        while off < len(data):
            off += os.write(wfd, data[off:off + 65536])
    finally:
        os._exit(0)


def run_one(req):
    rfd, wfd = os.pipe()
    pid = os.fork()
    if pid == 0:
        os.close(rfd)
        signal.signal(signal.SIGINT, signal.SIG_DFL)
        _child(req, wfd)
        os._exit(0)
    os.close(wfd)
    wall = float(req.get("wall", 300))
    deadline = time.monotonic() + wall
    buf = b""
    status = None
    while True:
        left = deadline - time.monotonic()
        if left <= 0:
            status = "budget"
            break
        r, _, _ = select.select([rfd], [], [], min(left, 5.0))
        if r:
            chunk = os.read(rfd, 1 << 20)
            if not chunk:
                break
            buf += chunk
    os.close(rfd)
    if status == "budget":
        try:
            os.kill(pid, signal.SIGKILL)
        except ProcessLookupError:
            pass
    _, st = os.waitpid(pid, 0)
    if status == "budget":
        return {"status": "budget", "kind": "wall", "error": f"wall limit {wall}s"}
    if len(buf) >= 8:
        n = int.from_bytes(buf[:8], "big")
        if len(buf) - 8 == n:
            return json.loads(buf[8:].decode())
    if os.WIFSIGNALED(st) and os.WTERMSIG(st) in (signal.SIGXCPU, signal.SIGKILL):
        return {"status": "budget", "kind": "cpu-hard", "error": f"cpu limit (signal {os.WTERMSIG(st)})"}
    return {"status": "harness-error", "error": f"child died: wait status {st}, {len(buf)} bytes"}


def main():
    from .core import ensure_repo_on_path

    ensure_repo_on_path()
    # import everything the runs need once, before forking
    import genlm.grammar.parse.cky  # noqa
    import genlm.grammar.parse.earley  # noqa
    import genlm.grammar.parse.earley_rescaled  # noqa

    from . import props  # noqa

    for line in sys.stdin:
        line = line.strip()
        if not line:
            continue
        req = json.loads(line)
        if req.get("cmd") == "quit":
            break
        res = run_one(req)
        res["run"] = req.get("run")
        res["tag"] = req.get("tag")
        sys.stdout.write(json.dumps(res, default=repr) + "\n")
        sys.stdout.flush()


if __name__ == "__main__":
    main()
