"""Order seams: the scheduler owns every order the runtime (not the input) picks.

* ChaosSet / ChaosFrozenSet replace the module-global names ``set`` /
  ``frozenset`` inside genlm.grammar modules.  Iteration order of one object is
  stable between mutations (per-object salt), ``pop()`` returns a seeded choice.
* ChaosHeap replaces ``LocatorMaxHeap`` in both Earley modules: strict
  priorities are respected exactly, ties are broken by the seeded PRNG.
* dict order and dict.popitem() are language-guaranteed and left alone.

Every decision is a pure function of (order_seed, contents); contents are
ordered by the canonical key ``ckey`` so neither addresses nor the interpreter
hash seed leak into a decision.
"""
import hashlib
import heapq
import random

from .core import ckey, mix

_builtin_set = set
_builtin_frozenset = frozenset


class _State:
    def __init__(self):
        self.rng = random.Random(0)
        self.canonical = True  # order_seed == 0: sorted order, FIFO ties
        self.tie_policy = "fifo"
        self.fs_salt = 0
        self.log = hashlib.blake2b(digest_size=8)
        self.stats = {
            "set_created": 0,
            "set_iter": 0,
            "set_pop": 0,
            "fset_iter": 0,
            "heap_push": 0,
            "heap_pop": 0,
            "heap_tie": 0,
        }
        self.installed = {"sets": False, "heap": False}
        self.tie_events = []  # (priority, n_tied) for probes; bounded


ST = _State()


def _note(tag, *ints):
    ST.log.update(tag)
    for i in ints:
        ST.log.update(int(i & 0xFFFFFFFF).to_bytes(4, "big"))


def begin(order_seed, epoch=True):
    """(Re)seed the scheduler's PRNG.  Called at the start of every operation
    with that operation's own order_seed, so that dropping an operation during
    minimisation does not shift the decisions of the others.  epoch=False
    keeps the frozenset salt: objects that live across operations (C05) must
    keep the iteration order of an unmodified frozenset."""
    ST.canonical = order_seed == 0
    ST.rng = random.Random(mix(order_seed, "order"))
    salt = ST.rng.getrandbits(30)
    # tie-break policy among equal priorities: any order is a legal heap, so
    # the scheduler may also be adversarial (longest span first / LIFO)
    ST.tie_policy = "fifo" if ST.canonical else ST.rng.choice(["random", "random", "longest", "lifo"])
    if epoch:
        ST.fs_salt = salt
    _note(b"B", order_seed & 0xFFFFFFFF)


def log_digest():
    return ST.log.hexdigest()


def note_event(text):
    """Harness events (operation boundaries, canonical results) go into the
    same event log; draws nothing, reads no clock."""
    ST.log.update(b"E" + text.encode("utf-8", "replace"))


def stats():
    return dict(ST.stats)


class ChaosSet(_builtin_set):
    __slots__ = ("_salt",)

    def __init__(self, *a):
        _builtin_set.__init__(self, *a)
        self._salt = 0 if ST.canonical else ST.rng.getrandbits(32)
        ST.stats["set_created"] += 1

    def _order(self):
        items = sorted(_builtin_set.__iter__(self), key=ckey)
        if not ST.canonical and len(items) > 1:
            random.Random(self._salt * 1000003 + len(items)).shuffle(items)
        return items

    def __iter__(self):
        ST.stats["set_iter"] += 1
        n = _builtin_set.__len__(self)
        if n > 1:
            _note(b"I", n, self._salt)
        return iter(self._order())

    def pop(self):
        ST.stats["set_pop"] += 1
        if not self:
            raise KeyError("pop from an empty set")
        items = sorted(_builtin_set.__iter__(self), key=ckey)
        i = 0 if (ST.canonical or len(items) == 1) else ST.rng.randrange(len(items))
        _note(b"P", len(items), i)
        x = items[i]
        _builtin_set.remove(self, x)
        return x

    def copy(self):
        return ChaosSet(self)

    def __or__(self, o):
        r = _builtin_set.__or__(self, o)
        return r if r is NotImplemented else ChaosSet(r)

    def __and__(self, o):
        r = _builtin_set.__and__(self, o)
        return r if r is NotImplemented else ChaosSet(r)

    def __sub__(self, o):
        r = _builtin_set.__sub__(self, o)
        return r if r is NotImplemented else ChaosSet(r)

    def __xor__(self, o):
        r = _builtin_set.__xor__(self, o)
        return r if r is NotImplemented else ChaosSet(r)

    __ror__ = __or__
    __rand__ = __and__

    def __rsub__(self, o):
        r = _builtin_set.__rsub__(self, o)
        return r if r is NotImplemented else ChaosSet(r)

    def union(self, *o):
        return ChaosSet(_builtin_set.union(self, *o))

    def intersection(self, *o):
        return ChaosSet(_builtin_set.intersection(self, *o))

    def difference(self, *o):
        return ChaosSet(_builtin_set.difference(self, *o))

    def __reduce__(self):
        return (_builtin_set, (list(_builtin_set.__iter__(self)),))

    def __deepcopy__(self, memo):
        import copy

        return ChaosSet([copy.deepcopy(x, memo) for x in _builtin_set.__iter__(self)])

    def __repr__(self):
        return "{" + ", ".join(repr(x) for x in sorted(_builtin_set.__iter__(self), key=ckey)) + "}"


class ChaosFrozenSet(_builtin_frozenset):
    def __iter__(self):
        ST.stats["fset_iter"] += 1
        items = sorted(_builtin_frozenset.__iter__(self), key=ckey)
        if not ST.canonical and len(items) > 1:
            random.Random(ST.fs_salt * 7919 + len(items)).shuffle(items)
            _note(b"F", len(items))
        return iter(items)

    def __reduce__(self):
        return (_builtin_frozenset, (list(_builtin_frozenset.__iter__(self)),))


class ChaosHeap:
    """Drop-in for arsenal's LocatorMaxHeap (the subset the Earley parsers
    use): max-heap on priority, ties among *equal* priorities broken by the
    scheduler.  A strictly larger priority is always popped first."""

    def __init__(self, **kw):
        self.h = []
        self.n = 0
        self.live = {}
        self.on_pop = None

    def __setitem__(self, k, v):
        ST.stats["heap_push"] += 1
        v = float(v)
        self.n += 1
        if ST.canonical:
            tb = 0.0
        else:
            tb = ST.rng.random()
            pol = ST.tie_policy
            if pol == "lifo":
                tb = -float(self.n)
            elif pol == "longest" and isinstance(k, tuple) and k and isinstance(k[0], int):
                tb = float(k[0]) + tb * 0.5
        entry = (-v, tb, self.n, k)
        self.live[k] = entry
        heapq.heappush(self.h, entry)

    def __len__(self):
        return len(self.live)

    def __bool__(self):
        return bool(self.live)

    def __contains__(self, k):
        return k in self.live

    def pop(self):
        while True:
            entry = heapq.heappop(self.h)
            k = entry[3]
            if self.live.get(k) is entry:
                break
        del self.live[k]
        ST.stats["heap_pop"] += 1
        negv = entry[0]
        # a tie exists iff the next live entry has the same priority (O(1) peek)
        while self.h and self.live.get(self.h[0][3]) is not self.h[0]:
            heapq.heappop(self.h)
        tied = 1 if (self.h and self.h[0][0] == negv) else 0
        if tied:
            ST.stats["heap_tie"] += 1
            _note(b"T", tied)
            if len(ST.tie_events) < 50:
                ST.tie_events.append((-negv, tied + 1))
        if self.on_pop is not None:
            self.on_pop(k, -negv)
        return k, -negv

    popitem = pop


_MODS = (
    "genlm.grammar.cfg",
    "genlm.grammar.linear",
    "genlm.grammar.fst",
    "genlm.grammar.cfglm",
    "genlm.grammar.chart",
    "genlm.grammar.lm",
    "genlm.grammar.wfsa.base",
    "genlm.grammar.parse.earley",
    "genlm.grammar.parse.earley_rescaled",
    "genlm.grammar.parse.cky",
)
_HEAP_MODS = ("genlm.grammar.parse.earley", "genlm.grammar.parse.earley_rescaled")
_orig_cfg_init = [None]
_orig_heap = {}


def install(sets=True, heap=True):
    """Install the seams by rebinding names the code looks up at call time.
    No file under /repo is touched."""
    import importlib

    if sets and not ST.installed["sets"]:
        for name in _MODS:
            m = importlib.import_module(name)
            m.set = ChaosSet
            m.frozenset = ChaosFrozenSet
        from genlm.grammar.cfg import CFG

        if _orig_cfg_init[0] is None:
            _orig_cfg_init[0] = CFG.__init__
            orig = CFG.__init__

            def __init__(self, R, S, V):
                orig(self, R, S, V)
                if ST.installed["sets"] and type(self.N) is _builtin_set:
                    self.N = ChaosSet(self.N)

            CFG.__init__ = __init__
        ST.installed["sets"] = True
    if heap and not ST.installed["heap"]:
        for name in _HEAP_MODS:
            m = importlib.import_module(name)
            _orig_heap.setdefault(name, m.LocatorMaxHeap)
            m.LocatorMaxHeap = ChaosHeap
        ST.installed["heap"] = True


def uninstall():
    import importlib

    if ST.installed["sets"]:
        for name in _MODS:
            m = importlib.import_module(name)
            for attr in ("set", "frozenset"):
                if attr in m.__dict__:
                    del m.__dict__[attr]
        ST.installed["sets"] = False
    if ST.installed["heap"]:
        for name in _HEAP_MODS:
            m = importlib.import_module(name)
            m.LocatorMaxHeap = _orig_heap[name]
        ST.installed["heap"] = False


def make_set(items):
    """A vocabulary set for a user grammar: ChaosSet when the seam is on."""
    return ChaosSet(items) if ST.installed["sets"] else _builtin_set(items)
