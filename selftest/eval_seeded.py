"""Evaluate a seeded change: confirm (tests pass with it, demo fails with it /
passes without it) in a scratch worktree, then run the named quick checks
against the changed tree.  Usage:
  eval_seeded.py <seeded-dir> <check-id>[,<check-id>...] [--runs N] [--skip-confirm]
"""
import json, os, subprocess, sys, time

def sh(cmd, **kw):
    return subprocess.run(cmd, capture_output=True, text=True, **kw)

def main():
    d = os.path.abspath(sys.argv[1])
    checks = sys.argv[2].split(",")
    runs = None
    if "--runs" in sys.argv:
        runs = sys.argv[sys.argv.index("--runs") + 1]
    name = os.path.basename(d)
    wt = os.path.expanduser(f"~/scratch-seeded-{name}")
    sh(["git", "-C", "/repo", "worktree", "remove", "--force", wt])
    r = sh(["git", "-C", "/repo", "worktree", "add", "-q", "--detach", wt, "HEAD"]); assert r.returncode == 0, r.stderr
    res = {"name": name}
    try:
        env = dict(os.environ, PYTHONPATH=wt, PYTHONWARNINGS="ignore")
        demo = [f for f in os.listdir(d) if f.startswith("demo") and f.endswith(".py")][0]
        if "--skip-confirm" not in sys.argv:
            r0 = sh(["/venv/bin/python", os.path.join(d, demo)], cwd=wt, env=env)
            res["demo_without_change_exit"] = r0.returncode
        r = sh(["git", "-C", wt, "apply", os.path.join(d, "patch.diff")]); assert r.returncode == 0, r.stderr
        if "--skip-confirm" not in sys.argv:
            r1 = sh(["/venv/bin/python", os.path.join(d, demo)], cwd=wt, env=env)
            res["demo_with_change_exit"] = r1.returncode
            res["demo_with_change_tail"] = (r1.stdout + r1.stderr)[-300:]
            t = sh(["/venv/bin/python", "-m", "pytest", "-q", "-p", "no:cacheprovider", "--timeout=900"], cwd=wt, env=env)
            res["repo_tests_with_change"] = t.stdout.strip().splitlines()[-1] if t.stdout.strip() else t.stderr[-200:]
        for c in checks:
            t0 = time.time()
            cmd = ["/verif/check", c, "--tier", "quick", "--no-evidence"] + (["--runs", runs] if runs else [])
            r = sh(cmd, cwd="/verif", env=dict(os.environ, VERIF_REPO=wt))
            lines = [l for l in r.stdout.splitlines() if l.startswith("VIOLATION") or l.startswith("  {")]
            res[f"check_{c}"] = {"exit": r.returncode, "wall_s": round(time.time() - t0), "lines": lines[:6],
                                 "summary": r.stdout.strip().splitlines()[-1] if r.stdout.strip() else r.stderr[-300:]}
    finally:
        sh(["git", "-C", "/repo", "worktree", "remove", "--force", wt])
    print(json.dumps(res, indent=1, ensure_ascii=False))

if __name__ == "__main__":
    main()
