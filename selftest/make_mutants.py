"""Authoring helper (not part of any check): builds the sensitivity mutants as
diffs against /repo's HEAD in a scratch worktree and verifies that the
repository's own tests still pass with each.  Usage:
  /venv/bin/python selftest/make_mutants.py [name ...]
"""
import json, os, subprocess, sys

E = "genlm/grammar/parse/earley.py"
R = "genlm/grammar/parse/earley_rescaled.py"
K = "genlm/grammar/parse/cky.py"
C = "genlm/grammar/cfg.py"
L = "genlm/grammar/cfglm.py"

MUTANTS = {
 "M01_inplace_append": dict(prop=["C05"], needs="a shorter prefix queried after a longer one (parent's column list mutated in place)",
    edits=[(E, """            return chart + [
                last_chart
            ]  # TODO: avoid list addition here as it is not constant time!""",
               """            chart.append(last_chart)  # constant time
            return chart""")]),
 "M02_memoise_before_compute": dict(prop=["C05"], needs="a query aborted inside next_column, then the same or a longer context queried",
    edits=[(E, """                if x[:n] not in self._chart:
                    self._chart[x[:n]] = self._compute_chart(x[:n])""",
               """                if x[:n] not in self._chart:
                    if n == 0:
                        self._chart[x[:n]] = self._compute_chart(x[:n])
                        continue
                    cols = self._chart[x[:n]] = list(self._chart[x[: n - 1]])
                    cols.append(self.next_column(cols, x[n - 1]))""")]),
 "M03_clear_cache_keeps_root": dict(prop=["C05"], needs="clear_cache between queries on the rescaled parser after a longer context mutated the shared root entry",
    edits=[(R, """    def clear_cache(self):
        self._chart.clear()""",
               """    def clear_cache(self):
        root = self._chart.get(())
        self._chart.clear()
        if root is not None:
            self._chart[()] = root""" ),
           (R, """            return chart + [
                last_chart
            ]  # TODO: avoid list addition here as it is not constant time!""",
               """            if len(chart) == 1:
                chart.append(last_chart)
                return chart
            return chart + [last_chart]""")]),
 "M04_plain_order_max": dict(prop=["C02"], needs="an agenda tie between (span d, top unary bucket) and (span d+1, bucket 0) popped in the wrong order: set-order / hash-seed dependent",
    edits=[(E, "        self.ORDER_MAX = 1 + max(self.order.values())", "        self.ORDER_MAX = max(self.order.values())")]),
 "M05_reenqueue_completed": dict(prop=["C02"], silent=True, needs="EQUIVALENT on the correct tree: a completed item only receives a contribution after it was popped if the agenda order is wrong",
    edits=[(E, """            else:
                col.c_chart[item] = was + value

        else:
            # Items of the form phrase(I, X/[Y|Ys], K)""",
               """            else:
                col.c_chart[item] = was + value
                if Q is not None and item not in Q:
                    Q[item] = -((K - I) * self.ORDER_MAX + self.order[X])

        else:
            # Items of the form phrase(I, X/[Y|Ys], K)""")]),
 "M06_prefix_transducer_one_initial": dict(prop=["C01", "C04"], needs="a context whose only completion is the empty one (EOS directly after a complete string)",
    edits=[(C, """    P.add_I(0, R.one)
    P.add_I(1, R.one)
    for x in V:""", """    P.add_I(0, R.one)
    for x in V:""")]),
 "M07_bool_ge_zero": dict(prop=["C01"], needs="a float-weighted grammar with a negative rule weight handed to BoolCFGLM",
    edits=[(L, "cfg = cfg.map_values(lambda x: Boolean(x > 0), Boolean)", "cfg = cfg.map_values(lambda x: Boolean(x != 0), Boolean)")]),
 "M08_helper_skips_unit_test": dict(prop=["C01", "C04", "C05"], needs="a column where a non-unit item waits for the same symbol as a unit item",
    edits=[(E, "                node.edges = [x for x in cols[J].waiting_for[Y] if self.unit_Ys[x[2]]]",
               "                node.edges = list(cols[J].waiting_for[Y])")]),
 "M09_rescale_off_by_one": dict(prop=["C02", "C04"], needs="string weights from the rescaled parser (product of per-column rescale factors)",
    edits=[(R, "        return value / self.rescale(cols, 0, N)", "        return value / self.rescale(cols, 0, N - 1)")]),
 "M10_nullary_forgets_null_weight": dict(prop=["C06", "C02"], needs="a rule with two nullable symbols where the second one is skipped",
    edits=[(C, """                    if b:
                        v *= null_weight[r.body[i]]""", """                    if b and i == 0:
                        v *= null_weight[r.body[i]]""")]),
 "M11_cycle_remove_singletons_only": dict(prop=["C06", "C02"], needs="a unary cycle through two or more nonterminals",
    edits=[(C, """            for X1, X2 in W:
                new.add(W[X1, X2], X1, bot(X2))""", """            for X1, X2 in W:
                if len(nodes) == 1 or X1 != X2:
                    new.add(W[X1, X2], X1, bot(X2))""")]),
 "M12_agenda_seminaive_le": dict(prop=["C08"], needs="a rule body that repeats a symbol (X -> Y Y)",
    edits=[(C, """                        if j < k:
                            W *= new""", """                        if j <= k:
                            W *= new""")]),
 "M13_agenda_skips_small_blocks": dict(prop=["C08"], needs="a nonterminal whose first update is below the tolerance-sized shortcut",
    edits=[(C, """            if self.R.metric(old[u], new) <= tol:
                continue""", """            if self.R.metric(old[u], new) <= tol or (u in old and iteration > 50):
                continue""")]),
 "M14_trim_keeps_cache_alias": dict(prop=["C05"], needs="a transformation result cached on the grammar and then mutated through spawn sharing V",
    edits=[(C, """            V=set(self.V) if V is None else V,""", """            V=self.V if V is None else V,""")]),
 "M15_cky_shared_column": dict(prop=["C05"], needs="sibling contexts extended after one another on one IncrementalCKY (shared column mutated)",
    edits=[(K, """        new = defaultdict(cfg.R.chart)

        # Nullary
        new[k][cfg.S] += self.nullary""", """        new = chart[-1] if len(chart) > 1 and k % 3 == 0 else defaultdict(cfg.R.chart)

        # Nullary
        new[k][cfg.S] += self.nullary""")]),
 "S01_silent_rule_order": dict(prop=[], silent=True, needs="semantics-preserving: binarize processes rules in original order",
    edits=[(C, """            p = stack.pop()
            if len(p.body) <= 2:""", """            p = stack.pop(0)
            if len(p.body) <= 2:""")]),
 "S02_silent_extra_trim": dict(prop=[], silent=True, needs="semantics-preserving: an extra trim in the Earley preprocessing",
    edits=[(E, "        cfg = cfg.nullaryremove(binarize=True).unarycycleremove().renumber()",
               "        cfg = cfg.nullaryremove(binarize=True).trim().unarycycleremove().renumber()")]),
 "S03_silent_sorted_predict": dict(prop=[], silent=True, needs="semantics-preserving: PREDICT iterates the reachable set in a different order",
    edits=[(E, "        for X in reachable:\n            for w, Ys in rhs.get(X, ()):", "        for X in list(reachable)[::-1]:\n            for w, Ys in rhs.get(X, ()):")]),
}

def main():
    here = os.path.dirname(os.path.abspath(__file__))
    wt = os.path.expanduser("~/scratch-mutants-wt")
    subprocess.run(["git", "-C", "/repo", "worktree", "remove", "--force", wt], capture_output=True)
    subprocess.run(["git", "-C", "/repo", "worktree", "add", "-q", "--detach", wt, "HEAD"], check=True)
    names = sys.argv[1:] or list(MUTANTS)
    meta_path = os.path.join(here, "mutants", "meta.json")
    meta = json.load(open(meta_path)) if os.path.exists(meta_path) else {}
    try:
        for name in names:
            m = MUTANTS[name]
            subprocess.run(["git", "-C", wt, "checkout", "-q", "--", "."], check=True)
            for f, old, new in m["edits"]:
                p = os.path.join(wt, f)
                s = open(p).read()
                assert s.count(old) == 1, (name, f, s.count(old))
                open(p, "w").write(s.replace(old, new))
            diff = subprocess.run(["git", "-C", wt, "diff"], capture_output=True, text=True).stdout
            open(os.path.join(here, "mutants", name + ".diff"), "w").write(diff)
            r = subprocess.run(["/venv/bin/python", "-m", "pytest", "-q", "-p", "no:cacheprovider", "-x", "--timeout=900"],
                               cwd=wt, env=dict(os.environ, PYTHONPATH=wt), capture_output=True, text=True)
            tail = r.stdout.strip().splitlines()[-1] if r.stdout.strip() else r.stderr[-200:]
            meta[name] = {"properties": m["prop"], "needs": m["needs"], "silent": bool(m.get("silent")),
                          "repo_tests": tail, "repo_tests_pass": r.returncode == 0}
            print(name, "->", tail)
    finally:
        subprocess.run(["git", "-C", "/repo", "worktree", "remove", "--force", wt], capture_output=True)
    json.dump(meta, open(meta_path, "w"), indent=1)

if __name__ == "__main__":
    main()
